#!/bin/sh
# Build the framework from files on disk only (offline).
set -e
cd /verif/harness
CARGO_NET_OFFLINE=true cargo build --offline --quiet 2>/dev/null || CARGO_NET_OFFLINE=true cargo build --offline
cd /verif/spec
for f in *.tla; do tla-sany "$f" >/dev/null 2>&1 || { echo "SANY failed on $f"; tla-sany "$f" | tail -20; exit 1; }; done
echo setup ok
