//! C19: the streaming mirror. Scheduled mode: the real producer runs to completion into channel c0; the harness then plays
//! time by forwarding c0 -> c1 one message at a time between real Bdd::recv calls on a real relay (sender+receiver) and a
//! real receiver. Threads mode: free-running producer / relay / receiver threads.
#![cfg(feature = "frontend")]
use crate::bddops::*;
use crate::util::*;
use adf_bdd::datatypes::{BddNode, Term, Var};
use adf_bdd::obdd::Bdd;
use crossbeam_channel::{unbounded, Receiver, Sender};
use rand::rngs::StdRng;
use rand::{Rng, SeedableRng};
use serde_json::{json, Value};
use std::io::Write;

/// a seeded producer program on a store that streams into `s`
fn producer(seed: u64, s: Sender<BddNode>, max_nodes: usize) -> Bdd {
    let mut rng = StdRng::seed_from_u64(seed);
    let mut bdd = Bdd::with_sender(s);
    // long streams need room: more variables, more attempts
    let nv = if max_nodes > 60 { rng.gen_range(6..=9) } else { rng.gen_range(2..=4) };
    for v in 0..nv {
        bdd.variable(Var(v));
    }
    let mut guard = 0;
    while bdd.nodes.len() < max_nodes + 2 && guard < 200usize.max(max_nodes * 6) {
        guard += 1;
        let n = bdd.nodes.len();
        let a = Term(rng.gen_range(0..n));
        let b = Term(rng.gen_range(0..n));
        match rng.gen_range(0..7) {
            0 => { bdd.and(a, b); }
            1 => { bdd.or(a, b); }
            2 => { bdd.xor(a, b); }
            3 => { bdd.iff(a, b); }
            4 => { bdd.imp(a, b); }
            5 => { bdd.not(a); }
            _ => { bdd.restrict(a, Var(rng.gen_range(0..nv)), rng.gen_bool(0.5)); }
        }
    }
    bdd
}

fn nodes_of(v: &[BddNode]) -> Value {
    Value::Array(v.iter().map(node_json).collect())
}

#[derive(Clone, Debug)]
enum Step { Fwd, Relay(usize), Recv(usize), Hangup }

fn scheduled(id: String, seed: u64, max_nodes: usize, schedule: &[Step]) -> Value {
    let (s0, r0) = unbounded();
    let prod = producer(seed, s0, max_nodes);
    let stream: Vec<BddNode> = r0.try_iter().collect();
    let (s1, r1): (Sender<BddNode>, Receiver<BddNode>) = unbounded();
    let (s2, r2): (Sender<BddNode>, Receiver<BddNode>) = unbounded();
    // channel lengths are read through sender clones: a receiver clone kept by the harness would keep the channel connected
    // after the receiving store has been dropped (Step::Hangup)
    let s2len = s2.clone();
    let mut relay = Bdd::with_sender_receiver(s2, r1);
    let mut recv: Option<Bdd> = Some(Bdd::with_receiver(r2));
    let mut next = 0usize;
    let mut steps = Vec::new();
    for st in schedule {
        match st {
            Step::Fwd => {
                if next < stream.len() {
                    s1.send(stream[next]).unwrap();
                    next += 1;
                    steps.push(json!({"a": "fwd"}));
                }
            }
            Step::Relay(h) => {
                let found = relay.recv(Term(*h));
                steps.push(json!({"a": "relay", "h": h, "found": found, "nodes": nodes_json(&relay), "c1": s1.len(), "c2": s2len.len()}));
            }
            Step::Recv(h) => {
                if let Some(rv) = recv.as_mut() {
                    let found = rv.recv(Term(*h));
                    steps.push(json!({"a": "recv", "h": h, "found": found, "nodes": nodes_json(rv), "c1": s1.len(), "c2": s2len.len()}));
                }
            }
            Step::Hangup => {
                // the last store of the chain goes away while the producer and the relay carry on
                if recv.take().is_some() {
                    steps.push(json!({"a": "hangup"}));
                }
            }
        }
    }
    // producer done: forward the rest, drain through the chain
    while next < stream.len() {
        s1.send(stream[next]).unwrap();
        next += 1;
        steps.push(json!({"a": "fwd"}));
    }
    let last = prod.nodes.len() + 5;
    let f1 = relay.recv(Term(last));
    steps.push(json!({"a": "relay", "h": last, "found": f1, "nodes": nodes_json(&relay), "c1": s1.len(), "c2": s2len.len()}));
    if let Some(rv) = recv.as_mut() {
        let f2 = rv.recv(Term(last));
        steps.push(json!({"a": "recv", "h": last, "found": f2, "nodes": nodes_json(rv), "c1": s1.len(), "c2": s2len.len()}));
    }
    json!({"kind": "frontend", "id": id, "mode": "scheduled", "prod": nodes_json(&prod), "stream": nodes_of(&stream), "steps": steps,
           "hung": recv.is_none(), "final_relay": nodes_json(&relay), "final_recv": recv.as_ref().map(nodes_json).unwrap_or(json!([]))})
}

fn threads(id: String, seed: u64, max_nodes: usize) -> Value {
    // the producer -> relay channel is unbounded, or bounded with capacity 1 / 2 (the producer then has to wait for the relay);
    // nothing may ever be lost, whatever the channel flavour
    let (s1, r1) = match seed % 3 { 0 => unbounded(), 1 => crossbeam_channel::bounded(1), _ => crossbeam_channel::bounded(2) };
    // ... and so is the relay -> receiver channel (the relay then has to wait for the receiver, which keeps polling until the relay is done)
    let (s2, r2) = match (seed / 3) % 3 { 0 => unbounded(), 1 => crossbeam_channel::bounded(1), _ => crossbeam_channel::bounded(3) };
    let (so, ro) = unbounded::<Value>();
    let relay_done = std::sync::Arc::new(std::sync::atomic::AtomicBool::new(false));
    let (rd1, rd2) = (relay_done.clone(), relay_done.clone());
    let prod_done = std::sync::Arc::new(std::sync::atomic::AtomicBool::new(false));
    let pd = prod_done.clone();
    let prod_h = std::thread::spawn(move || {
        let p = producer(seed, s1, max_nodes);
        pd.store(true, std::sync::atomic::Ordering::SeqCst);
        p.nodes.clone()
    });
    let so1 = so.clone();
    let pd1 = prod_done.clone();
    let relay_h = std::thread::spawn(move || {
        let mut rng = StdRng::seed_from_u64(seed ^ 1);
        let mut relay = Bdd::with_sender_receiver(s2, r1);
        let mut k = 0;
        loop {
            let done_before = pd1.load(std::sync::atomic::Ordering::SeqCst);
            // always leave room beyond the current table, otherwise a bounded producer could wait forever
            let h = rng.gen_range(0..relay.nodes.len() + 4);
            let found = relay.recv(Term(h));
            so1.send(json!({"a": "relay", "seq": k, "h": h, "found": found, "nodes": nodes_json(&relay)})).unwrap();
            k += 1;
            if k % 3 == 0 { std::thread::sleep(std::time::Duration::from_micros(300)); }
            // stop once the producer had finished before a poll that found the channel empty (or after plenty of polls)
            if (done_before && !found && h >= relay.nodes.len()) || (done_before && k > 400) { break; }
        }
        rd1.store(true, std::sync::atomic::Ordering::SeqCst);
        relay
    });
    let so2 = so.clone();
    let recv_h = std::thread::spawn(move || {
        let mut rng = StdRng::seed_from_u64(seed ^ 2);
        let mut recv = Bdd::with_receiver(r2);
        let mut k = 0;
        while k < 40 || (!rd2.load(std::sync::atomic::Ordering::SeqCst) && k < 100_000) {
            let h = rng.gen_range(0..recv.nodes.len() + 4);
            let found = recv.recv(Term(h));
            if k < 400 {
                so2.send(json!({"a": "recv", "seq": k, "h": h, "found": found, "nodes": nodes_json(&recv)})).unwrap();
            }
            k += 1;
            if k % 7 == 6 { std::thread::yield_now(); }
            if k > 40 { std::thread::sleep(std::time::Duration::from_micros(200)); }
        }
        recv
    });
    let prod_nodes = prod_h.join().unwrap();
    let relay = relay_h.join().unwrap();
    let mut recv = recv_h.join().unwrap();
    drop(so);
    let mut steps: Vec<Value> = ro.try_iter().collect();
    // quiescence: producer is done; drain the chain
    let last = prod_nodes.len() + 5;
    // the relay may still hold unforwarded messages and its channel to the receiver may be bounded: drain it in a thread of its own
    // while the receiver keeps polling (a harness that drained both in one thread would block itself)
    let drain_h = std::thread::spawn(move || {
        let mut relay = relay;
        let f1 = relay.recv(Term(last));
        (relay, f1)
    });
    while !drain_h.is_finished() {
        recv.recv(Term(last));
        std::thread::yield_now();
    }
    let (mut relay, f1) = drain_h.join().unwrap();
    steps.push(json!({"a": "relay", "seq": 100000, "h": last, "found": f1, "nodes": nodes_json(&relay)}));
    let f2 = recv.recv(Term(last));
    steps.push(json!({"a": "recv", "seq": 100001, "h": last, "found": f2, "nodes": nodes_json(&recv)}));
    // the producer is gone by now (its sender is dropped): a store that has seen the hang-up still answers for what it holds
    let mut seq = 100002;
    for h in [0usize, 1, 2, prod_nodes.len() - 1, prod_nodes.len()] {
        let f = relay.recv(Term(h));
        steps.push(json!({"a": "relay", "seq": seq, "h": h, "found": f, "nodes": nodes_json(&relay)}));
        seq += 1;
    }
    let final_relay = nodes_json(&relay);
    drop(relay);
    for h in [last, 0usize, 1, 2, prod_nodes.len() - 1, prod_nodes.len()] {
        let f = recv.recv(Term(h));
        steps.push(json!({"a": "recv", "seq": seq, "h": h, "found": f, "nodes": nodes_json(&recv)}));
        seq += 1;
    }
    json!({"kind": "frontend", "id": id, "mode": "threads", "hung": false, "prod": nodes_of(&prod_nodes), "stream": nodes_of(&prod_nodes[2..]), "steps": steps,
           "final_relay": final_relay, "final_recv": nodes_json(&recv), "channel": (["unbounded", "bounded1", "bounded2"][(seed % 3) as usize]),
           "channel2": (["unbounded", "bounded1", "bounded3"][((seed / 3) % 3) as usize])})
}

pub fn main(args: &[String]) {
    let mut tier = "quick".to_string();
    let mut out = String::new();
    let mut i = 0;
    while i < args.len() {
        match args[i].as_str() {
            "--tier" => { tier = args[i + 1].clone(); i += 1 }
            "--out" => { out = args[i + 1].clone(); i += 1 }
            _ => {}
        }
        i += 1;
    }
    quiet_panics();
    let mut rng = StdRng::seed_from_u64(env_seed() ^ 0xf207_7e2d);
    let mut recs: Vec<Value> = Vec::new();
    let guard = |f: Box<dyn FnOnce() -> Value + Send>, id: String| -> Value {
        match guarded(60, f) {
            Outcome::Ok(v) => v,
            o => json!({"kind": "panic", "id": id, "what": o.status(), "msg": o.msg()}),
        }
    };
    // (1) every schedule of length <= 3 over {fwd, relay poll h, recv poll h} for a 3-node stream
    let m = 3usize;
    let mut alphabet = vec![Step::Fwd, Step::Hangup];
    for h in 0..(m + 3) {
        alphabet.push(Step::Relay(h));
        alphabet.push(Step::Recv(h));
    }
    let pseed: u64 = rng.gen();
    let mut count = 0;
    let l3 = if tier == "thorough" { 4 } else { 3 };
    let total = alphabet.len().pow(l3 as u32);
    for code in 0..total {
        // thorough: length 4 is sampled 1 in 3; the per-feature-build workload takes 1 in 10 of length 3
        if l3 == 4 && code % 3 != 0 { continue; }
        if tier == "feat" && code % 10 != 0 { continue; }
        let mut c = code;
        let mut sched = Vec::new();
        for _ in 0..l3 {
            sched.push(alphabet[c % alphabet.len()].clone());
            c /= alphabet.len();
        }
        let id = format!("x{}", code);
        let id2 = id.clone();
        recs.push(guard(Box::new(move || scheduled(id2, pseed, m, &sched)), id));
        count += 1;
    }
    // (2) seeded long schedules on longer streams
    let nrand = if tier == "thorough" { 3000 } else if tier == "feat" { 100 } else { 400 };
    for k in 0..nrand {
        let mn = rng.gen_range(3..=14);
        let len = rng.gen_range(5..=40);
        let mut sched: Vec<Step> = (0..len).map(|_| match rng.gen_range(0..10) {
            0..=4 => Step::Fwd,
            5..=7 => Step::Relay(rng.gen_range(0..mn + 4)),
            _ => Step::Recv(rng.gen_range(0..mn + 4)),
        }).collect();
        // in a sixth of the runs the last store of the chain is dropped somewhere in the middle
        if k % 6 == 5 {
            let at = rng.gen_range(0..sched.len());
            sched.insert(at, Step::Hangup);
        }
        let seed: u64 = rng.gen();
        let id = format!("s{}", k);
        let id2 = id.clone();
        recs.push(guard(Box::new(move || scheduled(id2, seed, mn, &sched)), id));
        count += 1;
    }
    // (2b) long streams (100-400 nodes) forwarded in bursts of 1-80 messages between the polls
    let nlong = if tier == "thorough" { 60 } else if tier == "feat" { 2 } else { 6 };
    for k in 0..nlong {
        let mn = if tier == "thorough" { rng.gen_range(100..=400) } else { rng.gen_range(100..=260) };
        let mut sched: Vec<Step> = Vec::new();
        for _ in 0..rng.gen_range(6..=14) {
            let burst = [1, 2, 7, 31, 32, 33, 63, 64, 65, 80][rng.gen_range(0..10)];
            for _ in 0..burst {
                sched.push(Step::Fwd);
            }
            if k % 3 == 2 && sched.len() > 100 && !sched.iter().any(|s| matches!(s, Step::Hangup)) {
                sched.push(Step::Hangup);
            }
            for _ in 0..rng.gen_range(0..3) {
                let h = if rng.gen_bool(0.5) { rng.gen_range(0..mn + 4) } else { sched.len() / 2 + rng.gen_range(0..6) };
                sched.push(if rng.gen_bool(0.6) { Step::Relay(h) } else { Step::Recv(h) });
            }
        }
        let seed: u64 = rng.gen();
        let id = format!("L{}", k);
        let id2 = id.clone();
        recs.push(guard(Box::new(move || scheduled(id2, seed, mn, &sched)), id));
        count += 1;
    }
    // (3) free-running threads
    let nthr = if tier == "thorough" { 400 } else if tier == "feat" { 18 } else { 60 };
    for k in 0..nthr {
        // a few free-running runs stream several hundred nodes
        let mn = if k % 30 == 29 { rng.gen_range(120..=200) } else { rng.gen_range(4..=30) };
        let seed: u64 = rng.gen();
        let id = format!("t{}", k);
        let id2 = id.clone();
        recs.push(guard(Box::new(move || threads(id2, seed, mn)), id));
        count += 1;
    }
    let mut f = std::io::BufWriter::new(std::fs::File::create(&out).expect("cannot create out file"));
    for r in &recs {
        writeln!(f, "{}", r).unwrap();
    }
    f.flush().unwrap();
    eprintln!("frontend: {} runs", count);
    std::process::exit(0);
}
