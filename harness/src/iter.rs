//! C20: the two interpretation iterators on all short vectors and on random longer ones.
use crate::util::*;
use adf_bdd::datatypes::adf::{ThreeValuedInterpretationsIterator, TwoValuedInterpretationsIterator};
use adf_bdd::datatypes::Term;
use rand::rngs::StdRng;
use rand::{Rng, SeedableRng};
use serde_json::{json, Value};
use std::io::Write;

fn run_vec(id: String, vec: Vec<Term>) -> Value {
    let v2 = vec.clone();
    let out = guarded(30, move || {
        let mut it2 = TwoValuedInterpretationsIterator::new(&v2);
        let mut two: Vec<Vec<usize>> = Vec::new();
        while let Some(x) = it2.next() {
            two.push(x.iter().map(|t| t.value()).collect());
            if two.len() > 100_000 { break; }
        }
        let extra2 = (0..3).filter(|_| it2.next().is_some()).count();
        let mut it3 = ThreeValuedInterpretationsIterator::new(&v2);
        let mut three: Vec<Vec<usize>> = Vec::new();
        while let Some(x) = it3.next() {
            three.push(x.iter().map(|t| t.value()).collect());
            if three.len() > 100_000 { break; }
        }
        let extra3 = (0..3).filter(|_| it3.next().is_some()).count();
        (two, extra2, three, extra3)
    });
    let raw: Vec<usize> = vec.iter().map(|t| t.value()).collect();
    match out {
        Outcome::Ok((two, e2, three, e3)) => json!({"kind": "iter", "id": id, "vec": raw, "st": "ok", "two": two, "three": three, "extra2": e2, "extra3": e3}),
        o => json!({"kind": "iter", "id": id, "vec": raw, "st": o.status(), "two": [], "three": [], "extra2": 0, "extra3": 0}),
    }
}

/// long vectors: 2^k / 3^k items cannot be enumerated, but the first ones can - and k crosses every machine-word boundary
fn run_long(id: String, vec: Vec<Term>, take: usize) -> Value {
    let v2 = vec.clone();
    let out = guarded(30, move || {
        let two: Vec<Vec<usize>> = TwoValuedInterpretationsIterator::new(&v2).take(take).map(|x| x.iter().map(|t| t.value()).collect()).collect();
        let three: Vec<Vec<usize>> = ThreeValuedInterpretationsIterator::new(&v2).take(take).map(|x| x.iter().map(|t| t.value()).collect()).collect();
        (two, three)
    });
    let raw: Vec<usize> = vec.iter().map(|t| t.value()).collect();
    match out {
        Outcome::Ok((two, three)) => json!({"kind": "iterlong", "id": id, "vec": raw, "st": "ok", "take": take, "two": two, "three": three}),
        o => json!({"kind": "iterlong", "id": id, "vec": raw, "st": o.status(), "take": take, "two": [], "three": []}),
    }
}

pub fn main(args: &[String]) {
    let mut tier = "quick".to_string();
    let mut out = String::new();
    let mut i = 0;
    while i < args.len() {
        match args[i].as_str() {
            "--tier" => { tier = args[i + 1].clone(); i += 1 }
            "--out" => { out = args[i + 1].clone(); i += 1 }
            _ => {}
        }
        i += 1;
    }
    quiet_panics();
    let mut rng = StdRng::seed_from_u64(env_seed() ^ 0x17e2_a701);
    let mut f = std::io::BufWriter::new(std::fs::File::create(&out).expect("cannot create out file"));
    let mut count = 0;
    // every vector of length <= 5 over {T, F, U}; undecided positions carry arbitrary non-constant handles
    for len in 0..=5usize {
        for code in 0..3usize.pow(len as u32) {
            let mut c = code;
            let mut v = Vec::new();
            for _ in 0..len {
                v.push(match c % 3 { 0 => Term::BOT, 1 => Term::TOP, _ => Term(rng.gen_range(2..40)) });
                c /= 3;
            }
            writeln!(f, "{}", run_vec(format!("e{}_{}", len, code), v)).unwrap();
            count += 1;
        }
    }
    let nrand = if tier == "thorough" { 600 } else { 80 };
    for k in 0..nrand {
        let len = rng.gen_range(6..=(if tier == "thorough" { 10 } else { 9 }));
        let pu = [20, 40, 60, 85][rng.gen_range(0..4)];
        let mut v: Vec<Term> = (0..len).map(|_| if rng.gen_range(0..100) < pu { Term(rng.gen_range(2..1000)) } else { Term(rng.gen_range(0..2)) }).collect();
        // keep 3^k manageable
        let mut k_und = v.iter().filter(|t| !t.is_truth_value()).count();
        while k_und > 8 {
            let i = v.iter().position(|t| !t.is_truth_value()).unwrap();
            v[i] = Term::TOP;
            k_und -= 1;
        }
        writeln!(f, "{}", run_vec(format!("r{}", k), v)).unwrap();
        count += 1;
    }
    for (j, k_und) in [12usize, 20, 21, 31, 32, 33, 40, 41, 42, 63, 64, 65, 81, 130].iter().enumerate() {
        for rep in 0..(if tier == "thorough" { 6 } else { 2 }) {
            // k undecided positions mixed with a few decided ones
            let mut v: Vec<Term> = (0..*k_und).map(|i| Term(2 + i + rng.gen_range(0..3) * 200)).collect();
            for _ in 0..rng.gen_range(0..4) {
                let at = rng.gen_range(0..=v.len());
                v.insert(at, Term(rng.gen_range(0..2)));
            }
            writeln!(f, "{}", run_long(format!("L{}_{}", j, rep), v, 40)).unwrap();
            count += 1;
        }
    }
    f.flush().unwrap();
    eprintln!("iter: {} vectors", count);
    std::process::exit(0);
}
