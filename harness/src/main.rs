mod bddops;
mod cli;
mod compile;
#[cfg(feature = "frontend")]
mod frontend;
mod gen;
mod hist;
mod iter;
mod ng;
mod parse;
mod syntax;
mod search;
mod sem;
mod server;
mod util;

fn main() {
    let args: Vec<String> = std::env::args().collect();
    if args.len() < 2 {
        eprintln!("usage: adfv <subcommand> ...");
        std::process::exit(2);
    }
    match args[1].as_str() {
        "sem" => sem::main(&args[2..]),
        "bdd" => bddops::main(&args[2..]),
        "hist" => hist::main(&args[2..]),
        #[cfg(feature = "frontend")]
        "frontend" => frontend::main(&args[2..]),
        "iter" => iter::main(&args[2..]),
        "ng" => ng::main(&args[2..]),
        "search" => search::main(&args[2..]),
        "server" => server::main(&args[2..]),
        "cli" => cli::main(&args[2..]),
        "compile" => compile::main_compile(&args[2..]),
        "meta" => compile::main_meta(&args[2..]),
        "parse" => parse::main(&args[2..]),
        other => {
            eprintln!("unknown subcommand {}", other);
            std::process::exit(2);
        }
    }
}
