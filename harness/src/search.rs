//! Step-level conformance of the nogood-learning loop (C05, drift only): with the search tracer (hook H3) installed, the
//! loop-carried state at the head of every iteration of the REAL nogood_internal is recorded for scripted heuristics.
//! TLC replays NgSearch!Iterate along it (Trace_NgSearch).  One output file per (statement count, mode) because N and
//! TwoValMode are CONSTANTS of the model.
use crate::gen::*;
use crate::sem::exhaustive_cases;
use crate::util::*;
use adf_bdd::adf::heuristics::Heuristic;
use adf_bdd::adf::{verif_trace, Adf};
use adf_bdd::datatypes::{Term, Var};
use adf_bdd::parser::AdfParser;
use rand::rngs::StdRng;
use rand::{Rng, SeedableRng};
use serde_json::{json, Value};
use std::io::Write;
use std::sync::atomic::{AtomicUsize, Ordering};
use std::sync::Arc;

fn one_run(case: &AdfCase, script: Vec<(usize, bool)>, twoval: bool, id: String, builtin: Option<&'static str>) -> Vec<Value> {
    let text = case.text();
    let n = case.n();
    let asts: Vec<Value> = case.asts.iter().map(|a| a.to_json_idx()).collect();
    let res = guarded(12, move || {
        let parser = AdfParser::default();
        parser.parse()(&text).unwrap();
        let mut adf = Adf::from_parser(&parser);
        let counter = Arc::new(AtomicUsize::new(0));
        let c2 = counter.clone();
        let sc = script.clone();
        let picks: Arc<std::sync::Mutex<Vec<(usize, bool)>>> = Arc::new(std::sync::Mutex::new(Vec::new()));
        let p2 = picks.clone();
        let heu = move |_a: &Adf, interp: &[Term]| -> Option<(Var, Term)> {
            let c = c2.fetch_add(1, Ordering::SeqCst);
            let und: Vec<usize> = interp.iter().enumerate().filter(|(_, t)| !t.is_truth_value()).map(|(i, _)| i).collect();
            if und.is_empty() || c > 2000 {
                return None;
            }
            let (rank, val) = if sc.is_empty() { (0, true) } else { sc[c % sc.len()] };
            p2.lock().unwrap().push((und[rank % und.len()] + 1, val));
            Some((Var(und[rank % und.len()]), Term::from(val)))
        };
        verif_trace::install();
        let h: Heuristic = match builtin {
            Some("Simple") => Heuristic::Simple,
            Some("MinModMinPathsMaxVarImp") => Heuristic::MinModMinPathsMaxVarImp,
            Some("MinModMaxVarImpMinPaths") => Heuristic::MinModMaxVarImpMinPaths,
            _ => Heuristic::Custom(&heu),
        };
        let out: Vec<Vec<Term>> = if twoval {
            let (s, r) = crossbeam_channel::unbounded();
            adf.two_val_nogood_channel(h, s);
            r.try_iter().collect()
        } else {
            adf.stable_nogood(h).collect()
        };
        let pk = picks.lock().unwrap().clone();
        (verif_trace::take(), out, pk)
    });
    let mut recs = vec![json!({"kind": "start", "id": id, "n": n, "asts": asts, "twoval": twoval, "heu": builtin.unwrap_or("Custom")})];
    match res {
        Outcome::Ok((events, out, pk)) => {
            let mut pi = 0;
            for e in events {
                match e {
                    Some((cur, bt, ch, st, hi)) => {
                        // the heuristic is asked exactly in the iterations that start with choice = true
                        let pick = if ch && pi < pk.len() { pi += 1; json!([pk[pi - 1].0, pk[pi - 1].1]) } else { json!([0, false]) };
                        recs.push(json!({"kind": "iter", "cur": interp_json(&cur), "bt": bt, "ch": ch, "stack": st, "hist": hi, "pick": pick}))
                    }
                    None => recs.push(json!({"kind": "done", "out": interps_json(&out)})),
                }
            }
        }
        o => recs.push(json!({"kind": "abort", "what": o.status()})),
    }
    recs
}

/// the counting-guided search with the recursion-entry tracer (hook H3b) installed
fn count_run(case: &AdfCase, heu: &'static str, id: String) -> Value {
    let text = case.text();
    let n = case.n();
    let asts: Vec<Value> = case.asts.iter().map(|a| a.to_json_idx()).collect();
    let res = guarded(12, move || {
        let parser = AdfParser::default();
        parser.parse()(&text).unwrap();
        let mut adf = Adf::from_parser(&parser);
        verif_trace::install_visits();
        let out: Vec<Vec<Term>> = if heu == "a" { adf.stable_count_optimisation_heu_a().collect() } else { adf.stable_count_optimisation_heu_b().collect() };
        (verif_trace::take_visits(), out)
    });
    match res {
        Outcome::Ok((visits, out)) => json!({"kind": "count", "id": id, "n": n, "asts": asts, "heu": heu, "st": "ok",
            "visits": visits.iter().map(|(i, w, d)| json!([interp_json(i), interp_json(w), d])).collect::<Vec<_>>(), "out": interps_json(&out)}),
        o => json!({"kind": "count", "id": id, "n": n, "asts": asts, "heu": heu, "st": o.status(), "visits": [], "out": []}),
    }
}

pub fn main(args: &[String]) {
    let mut tier = "quick".to_string();
    let mut prefix = String::new();
    let mut i = 0;
    while i < args.len() {
        match args[i].as_str() {
            "--tier" => { tier = args[i + 1].clone(); i += 1 }
            "--out-prefix" => { prefix = args[i + 1].clone(); i += 1 }
            _ => {}
        }
        i += 1;
    }
    quiet_panics();
    let mut rng = StdRng::seed_from_u64(env_seed() ^ 0x5ea2_c401);
    let mut total = 0;
    for n in [2usize, 3] {
        let cases: Vec<AdfCase> = if n == 2 {
            exhaustive_cases(2)
        } else {
            let k = if tier == "thorough" { 1500 } else { 200 };
            (0..k).map(|j| rand_adf(&mut rng, 3, format!("s3_{}", j))).collect()
        };
        // counting-guided search, both heuristics
        {
            let path = format!("{}_count_n{}.ndjson", prefix, n);
            let mut f = std::io::BufWriter::new(std::fs::File::create(&path).expect("cannot create out file"));
            for (ci, case) in cases.iter().enumerate() {
                if give_up() {
                    break;
                }
                for heu in ["a", "b"] {
                    writeln!(f, "{}", count_run(case, heu, format!("{}#{}#{}", case.id, ci, heu))).unwrap();
                    total += 1;
                }
            }
            f.flush().unwrap();
        }
        for twoval in [false, true] {
            let path = format!("{}_n{}_{}.ndjson", prefix, n, if twoval { "tv" } else { "st" });
            let mut f = std::io::BufWriter::new(std::fs::File::create(&path).expect("cannot create out file"));
            for (ci, case) in cases.iter().enumerate() {
                if give_up() {
                    break;
                }
                for k in 0..3 {
                    let len = rng.gen_range(1..=5);
                    let script: Vec<(usize, bool)> = (0..len).map(|_| (rng.gen_range(0..n), rng.gen_bool(0.5))).collect();
                    for r in one_run(case, script, twoval, format!("{}#{}#{}", case.id, ci, k), None) {
                        writeln!(f, "{}", r).unwrap();
                    }
                    total += 1;
                }
                // the built-in heuristics: TLC computes their picks from the transcription (NgSearch!HeuPick)
                for h in ["Simple", "MinModMinPathsMaxVarImp", "MinModMaxVarImpMinPaths"] {
                    for r in one_run(case, vec![], twoval, format!("{}#{}#{}", case.id, ci, h), Some(h)) {
                        writeln!(f, "{}", r).unwrap();
                    }
                    total += 1;
                }
            }
            f.flush().unwrap();
        }
    }
    eprintln!("search: {} traced runs", total);
    std::process::exit(0);
}
