//! C08: well-formed texts in many spellings and suspicious mutations of them through the real parser (and, for texts the
//! parser rejects, through the real CLI binary in all three library modes).
use crate::bddops::*;
use crate::gen::*;
use crate::syntax::*;
use crate::util::*;
use adf_bdd::adf::Adf;
use adf_bdd::parser::AdfParser;
use rand::rngs::StdRng;
use rand::{Rng, SeedableRng};
use serde_json::{json, Value};
use std::io::Write;

pub fn run_cli(cli: &str, dir: &str, tag: &str, text: &str, args: &[&str]) -> Value {
    let path = format!("{}/{}.adf", dir, tag);
    std::fs::write(&path, text).unwrap();
    let out = std::process::Command::new(cli).arg(&path).args(args).env_remove("RUST_LOG").output();
    let _ = std::fs::remove_file(&path);
    match out {
        Ok(o) => {
            let stdout = String::from_utf8_lossy(&o.stdout).to_string();
            let lines: Vec<&str> = stdout.lines().collect();
            json!({"argv": args, "exit": o.status.code().unwrap_or(-1), "stdout": lines,
                   "stderr_tail": String::from_utf8_lossy(&o.stderr).chars().rev().take(200).collect::<String>().chars().rev().collect::<String>()})
        }
        Err(e) => json!({"argv": args, "exit": -99, "stdout": [], "stderr_tail": format!("spawn failed: {}", e)}),
    }
}

pub fn observe(id: String, text: &str, class: &str) -> Value {
    let t = text.to_string();
    let out = guarded(20, move || {
        let parser = AdfParser::default();
        let res = parser.parse()(&t);
        match res {
            Err(_) => json!({"verdict": "err"}),
            Ok(_) => {
                let names: Vec<String> = parser.var_container().names().read().unwrap().clone();
                let mut formulas = Vec::new();
                let mut i = 0;
                while let Some(f) = parser.ac_at(i) {
                    formulas.push(formula_json(&f));
                    i += 1;
                }
                let dict: Vec<Value> = names.iter().map(|n| json!(parser.dict_value(n).map(|x| x as i64).unwrap_or(-1))).collect();
                let native = match std::panic::catch_unwind(std::panic::AssertUnwindSafe(|| {
                    let adf = Adf::from_parser(&parser);
                    (adf.ac.iter().map(|t| t.value()).collect::<Vec<_>>(), nodes_json(&adf.bdd), adf.ordering.names().read().unwrap().clone())
                })) {
                    Ok((ac, nodes, onames)) => json!({"st": "ok", "ac": ac, "nodes": nodes, "names": onames.iter().map(|n| cps(n)).collect::<Vec<_>>()}),
                    Err(_) => json!({"st": "panic", "ac": [], "nodes": [], "names": []}),
                };
                json!({"verdict": "ok", "names": names.iter().map(|n| cps(n)).collect::<Vec<_>>(), "dict": dict, "formulas": formulas, "native": native})
            }
        }
    });
    let mut rec = match out {
        Outcome::Ok(v) => v,
        o => json!({"verdict": o.status()}),
    };
    if rec.get("names").is_none() {
        rec["names"] = json!([]);
        rec["dict"] = json!([]);
        rec["formulas"] = json!([]);
        rec["native"] = json!({"st": "na", "ac": [], "nodes": [], "names": []});
    }
    rec["kind"] = json!("parse");
    rec["id"] = json!(id);
    rec["class"] = json!(class);
    rec["cp"] = cps(text);
    rec["text"] = json!(text);
    rec["cli"] = json!([]);
    rec
}

pub fn main(args: &[String]) {
    let mut tier = "quick".to_string();
    let mut out = String::new();
    let mut cli: Option<String> = None;
    let mut work = "/tmp".to_string();
    let mut i = 0;
    while i < args.len() {
        match args[i].as_str() {
            "--tier" => { tier = args[i + 1].clone(); i += 1 }
            "--out" => { out = args[i + 1].clone(); i += 1 }
            "--cli" => { cli = Some(args[i + 1].clone()); i += 1 }
            "--work" => { work = args[i + 1].clone(); i += 1 }
            _ => {}
        }
        i += 1;
    }
    quiet_panics();
    let mut rng = StdRng::seed_from_u64(env_seed() ^ 0x9a25_e001);
    let nbase = if tier == "thorough" { 2500 } else { 350 };
    let ncli = if tier == "thorough" { 150 } else { 30 };
    let mut recs: Vec<Value> = Vec::new();
    let mut cli_budget = ncli;
    // the repository's own documented examples first
    for (k, t) in ["s(a).ac(a,c(v)).s(b).ac(b,a).s(c).ac(c,neg(b)).",
                   "s(a). s(b). ac(a,and(b , neg(a))). ac(b, or(c(f),a)).\n",
                   "s(a).s(c).ac(a,b).ac(b,neg(a)).s(b).ac(c,and(c(v),or(c(f),a))).s(e).s(d).ac(d,iff(imp(a,b),c)).ac(e,xor(d,e))."].iter().enumerate() {
        recs.push(observe(format!("doc{}", k), t, "documented"));
    }
    for k in 0..nbase {
        let n = rng.gen_range(1..=4);
        let style = [LabelStyle::Plain, LabelStyle::Keywords, LabelStyle::Keywords, LabelStyle::Quoted, LabelStyle::QuotedOps][rng.gen_range(0..5)];
        let labels = pick_labels(&mut rng, n, style);
        let depth = rng.gen_range(0..=3);
        let asts: Vec<Ast> = (0..n).map(|_| rand_ast(&mut rng, n, depth, None)).collect();
        let facts = if rng.gen_bool(0.5) { canonical_facts(n) } else { shuffled_facts(&mut rng, n) };
        let lay = if rng.gen_bool(0.3) { plain_layout() } else { rand_layout(&mut rng) };
        let text = render(&labels, &asts, &facts, &lay);
        if text.chars().count() > 150 {
            continue;
        }
        recs.push(observe(format!("w{}", k), &text, "wellformed"));
        // two suspicious mutations of it
        for m in 0..2 {
            let mt = mutate(&mut rng, &text);
            if mt.chars().count() > 156 || mt.is_empty() {
                continue;
            }
            let mut rec = observe(format!("m{}_{}", k, m), &mt, "mutated");
            if let Some(c) = &cli {
                if rec["verdict"] == "err" && cli_budget > 0 {
                    cli_budget -= 1;
                    let mut runs = Vec::new();
                    for lib in ["naive", "biodivine", "hybrid"] {
                        runs.push(run_cli(c, &work, &format!("p{}_{}_{}", k, m, lib), &mt, &["--lib", lib, "--grd", "--com", "--stm"]));
                    }
                    rec["cli"] = Value::Array(runs);
                }
            }
            recs.push(rec);
        }
    }
    let mut f = std::io::BufWriter::new(std::fs::File::create(&out).expect("cannot create out file"));
    for r in &recs {
        writeln!(f, "{}", r).unwrap();
    }
    f.flush().unwrap();
    eprintln!("parse: {} texts, {} CLI-checked", recs.len(), ncli - cli_budget);
    std::process::exit(0);
}
