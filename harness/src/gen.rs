//! Formula ASTs, rendering, random generation.  Nothing here decides a verdict:
//! the harness logs the ASTs it rendered and TLC recomputes every truth table.
use rand::rngs::StdRng;
use rand::Rng;
use serde_json::{json, Value};

#[derive(Clone, Debug, PartialEq, Eq, Hash)]
pub enum Ast {
    Top,
    Bot,
    Atom(usize), // 0-based statement index
    Not(Box<Ast>),
    And(Box<Ast>, Box<Ast>),
    Or(Box<Ast>, Box<Ast>),
    Imp(Box<Ast>, Box<Ast>),
    Iff(Box<Ast>, Box<Ast>),
    Xor(Box<Ast>, Box<Ast>),
}

pub fn not(a: Ast) -> Ast {
    Ast::Not(Box::new(a))
}
pub fn and(a: Ast, b: Ast) -> Ast {
    Ast::And(Box::new(a), Box::new(b))
}
pub fn or(a: Ast, b: Ast) -> Ast {
    Ast::Or(Box::new(a), Box::new(b))
}
pub fn imp(a: Ast, b: Ast) -> Ast {
    Ast::Imp(Box::new(a), Box::new(b))
}
pub fn iff(a: Ast, b: Ast) -> Ast {
    Ast::Iff(Box::new(a), Box::new(b))
}
pub fn xor(a: Ast, b: Ast) -> Ast {
    Ast::Xor(Box::new(a), Box::new(b))
}

impl Ast {
    /// JSON form for TLC: tagged tuples, atoms 1-based positions given by `pos` (statement -> position)
    pub fn to_json(&self, pos: &dyn Fn(usize) -> Value) -> Value {
        match self {
            Ast::Top => json!(["top"]),
            Ast::Bot => json!(["bot"]),
            Ast::Atom(i) => json!(["atom", pos(*i)]),
            Ast::Not(a) => json!(["not", a.to_json(pos)]),
            Ast::And(a, b) => json!(["and", a.to_json(pos), b.to_json(pos)]),
            Ast::Or(a, b) => json!(["or", a.to_json(pos), b.to_json(pos)]),
            Ast::Imp(a, b) => json!(["imp", a.to_json(pos), b.to_json(pos)]),
            Ast::Iff(a, b) => json!(["iff", a.to_json(pos), b.to_json(pos)]),
            Ast::Xor(a, b) => json!(["xor", a.to_json(pos), b.to_json(pos)]),
        }
    }

    pub fn to_json_idx(&self) -> Value {
        self.to_json(&|i| json!(i + 1))
    }

    /// text in the documented input format; `sep` is the text placed at each comma (e.g. "," or " , ")
    pub fn to_text(&self, labels: &[String], sep: &str) -> String {
        match self {
            Ast::Top => "c(v)".to_string(),
            Ast::Bot => "c(f)".to_string(),
            Ast::Atom(i) => labels[*i].clone(),
            Ast::Not(a) => format!("neg({})", a.to_text(labels, sep)),
            Ast::And(a, b) => format!("and({}{}{})", a.to_text(labels, sep), sep, b.to_text(labels, sep)),
            Ast::Or(a, b) => format!("or({}{}{})", a.to_text(labels, sep), sep, b.to_text(labels, sep)),
            Ast::Imp(a, b) => format!("imp({}{}{})", a.to_text(labels, sep), sep, b.to_text(labels, sep)),
            Ast::Iff(a, b) => format!("iff({}{}{})", a.to_text(labels, sep), sep, b.to_text(labels, sep)),
            Ast::Xor(a, b) => format!("xor({}{}{})", a.to_text(labels, sep), sep, b.to_text(labels, sep)),
        }
    }

    pub fn atoms(&self, out: &mut Vec<usize>) {
        match self {
            Ast::Top | Ast::Bot => {}
            Ast::Atom(i) => {
                if !out.contains(i) {
                    out.push(*i)
                }
            }
            Ast::Not(a) => a.atoms(out),
            Ast::And(a, b) | Ast::Or(a, b) | Ast::Imp(a, b) | Ast::Iff(a, b) | Ast::Xor(a, b) => {
                a.atoms(out);
                b.atoms(out)
            }
        }
    }

    pub fn map_atoms(&self, f: &dyn Fn(usize) -> usize) -> Ast {
        match self {
            Ast::Top => Ast::Top,
            Ast::Bot => Ast::Bot,
            Ast::Atom(i) => Ast::Atom(f(*i)),
            Ast::Not(a) => not(a.map_atoms(f)),
            Ast::And(a, b) => and(a.map_atoms(f), b.map_atoms(f)),
            Ast::Or(a, b) => or(a.map_atoms(f), b.map_atoms(f)),
            Ast::Imp(a, b) => imp(a.map_atoms(f), b.map_atoms(f)),
            Ast::Iff(a, b) => iff(a.map_atoms(f), b.map_atoms(f)),
            Ast::Xor(a, b) => xor(a.map_atoms(f), b.map_atoms(f)),
        }
    }

    /// used only for generation heuristics and sanity self-tests, never for verdicts
    pub fn eval(&self, a: u64) -> bool {
        match self {
            Ast::Top => true,
            Ast::Bot => false,
            Ast::Atom(i) => (a >> i) & 1 == 1,
            Ast::Not(x) => !x.eval(a),
            Ast::And(x, y) => x.eval(a) && y.eval(a),
            Ast::Or(x, y) => x.eval(a) || y.eval(a),
            Ast::Imp(x, y) => !x.eval(a) || y.eval(a),
            Ast::Iff(x, y) => x.eval(a) == y.eval(a),
            Ast::Xor(x, y) => x.eval(a) != y.eval(a),
        }
    }

    pub fn depth(&self) -> usize {
        match self {
            Ast::Top | Ast::Bot | Ast::Atom(_) => 0,
            Ast::Not(a) => 1 + a.depth(),
            Ast::And(a, b) | Ast::Or(a, b) | Ast::Imp(a, b) | Ast::Iff(a, b) | Ast::Xor(a, b) => {
                1 + a.depth().max(b.depth())
            }
        }
    }
}

fn lit(i: usize, pos: bool) -> Ast {
    if pos {
        Ast::Atom(i)
    } else {
        not(Ast::Atom(i))
    }
}

fn fold_bin(mut v: Vec<Ast>, op: fn(Ast, Ast) -> Ast, empty: Ast, right: bool) -> Ast {
    if v.is_empty() {
        return empty;
    }
    if right {
        let mut acc = v.pop().unwrap();
        while let Some(x) = v.pop() {
            acc = op(x, acc);
        }
        acc
    } else {
        let mut it = v.into_iter();
        let mut acc = it.next().unwrap();
        for x in it {
            acc = op(acc, x);
        }
        acc
    }
}

/// Render a truth table (bit a of `tt` = value under assignment a over `vars`) as an AST in one of several forms.
/// `vars[k]` is the statement tested by bit k of the assignment index.
pub fn from_tt(tt: u64, vars: &[usize], form: usize) -> Ast {
    let k = vars.len();
    let rows = 1u64 << k;
    let full = if rows == 64 { u64::MAX } else { (1u64 << rows) - 1 };
    let tt = tt & full;
    match form % 4 {
        0 => {
            // DNF
            let mut terms = Vec::new();
            for a in 0..rows {
                if (tt >> a) & 1 == 1 {
                    let lits: Vec<Ast> = (0..k).map(|j| lit(vars[j], (a >> j) & 1 == 1)).collect();
                    terms.push(fold_bin(lits, and, Ast::Top, false));
                }
            }
            fold_bin(terms, or, Ast::Bot, true)
        }
        1 => {
            // CNF
            let mut clauses = Vec::new();
            for a in 0..rows {
                if (tt >> a) & 1 == 0 {
                    let lits: Vec<Ast> = (0..k).map(|j| lit(vars[j], (a >> j) & 1 == 0)).collect();
                    clauses.push(fold_bin(lits, or, Ast::Bot, true));
                }
            }
            fold_bin(clauses, and, Ast::Top, false)
        }
        2 => shannon(tt, vars, 0, false),
        _ => shannon(tt, vars, 0, true),
    }
}

/// Shannon expansion on vars[j..]; `alt` uses imp/iff/xor spellings.
fn shannon(tt: u64, vars: &[usize], j: usize, alt: bool) -> Ast {
    let k = vars.len() - j;
    let rows = 1u64 << k;
    let full = if rows == 64 { u64::MAX } else { (1u64 << rows) - 1 };
    let tt = tt & full;
    if tt == 0 {
        return if alt { and(Ast::Bot, Ast::Top) } else { Ast::Bot };
    }
    if tt == full {
        return if alt { or(Ast::Bot, Ast::Top) } else { Ast::Top };
    }
    // split on vars[j] = lowest bit of the index
    let mut lo = 0u64;
    let mut hi = 0u64;
    for a in 0..(rows / 2) {
        if (tt >> (2 * a)) & 1 == 1 {
            lo |= 1 << a;
        }
        if (tt >> (2 * a + 1)) & 1 == 1 {
            hi |= 1 << a;
        }
    }
    let x = Ast::Atom(vars[j]);
    let l = shannon(lo, vars, j + 1, alt);
    let h = shannon(hi, vars, j + 1, alt);
    if alt {
        // (x -> h) and (not x -> l), written with imp / xor-with-top as negation / iff
        and(imp(x.clone(), h), imp(xor(x, Ast::Top), iff(l, Ast::Top)))
    } else {
        or(and(x.clone(), h), and(not(x), l))
    }
}

pub fn rand_ast(rng: &mut StdRng, n: usize, depth: usize, support: Option<&[usize]>) -> Ast {
    let pick_atom = |rng: &mut StdRng| -> Ast {
        match support {
            Some(s) if !s.is_empty() => Ast::Atom(s[rng.gen_range(0..s.len())]),
            _ => Ast::Atom(rng.gen_range(0..n)),
        }
    };
    if depth == 0 || rng.gen_range(0..100) < 12 {
        let r = rng.gen_range(0..100);
        return if r < 6 {
            Ast::Top
        } else if r < 12 {
            Ast::Bot
        } else {
            pick_atom(rng)
        };
    }
    let r = rng.gen_range(0..100);
    if r < 20 {
        not(rand_ast(rng, n, depth - 1, support))
    } else {
        let a = rand_ast(rng, n, depth - 1, support);
        let b = rand_ast(rng, n, depth - 1, support);
        match (r - 20) / 16 {
            0 => and(a, b),
            1 => or(a, b),
            2 => imp(a, b),
            3 => iff(a, b),
            _ => xor(a, b),
        }
    }
}

/// random truth table over k variables with a density bias
pub fn rand_tt(rng: &mut StdRng, k: usize) -> u64 {
    let rows = 1u32 << k;
    let density = [5, 20, 50, 50, 80, 95][rng.gen_range(0..6)];
    let mut tt = 0u64;
    for a in 0..rows {
        if rng.gen_range(0..100) < density {
            tt |= 1 << a;
        }
    }
    tt
}

#[derive(Clone, Debug)]
pub struct AdfCase {
    pub id: String,
    pub labels: Vec<String>, // by declaration order = variable position (unsorted parse)
    pub asts: Vec<Ast>,      // acceptance condition per statement (same order)
}

impl AdfCase {
    pub fn n(&self) -> usize {
        self.labels.len()
    }
    /// documented text: statements first, then acs in the given fact order
    pub fn text(&self) -> String {
        let mut s = String::new();
        for l in &self.labels {
            s.push_str(&format!("s({}).", l));
        }
        // the ac facts come in an order derived from the id (statement declaration order, hence the variable order, is
        // unaffected): the parser's formula order is then not the identity for most cases
        let n = self.asts.len();
        let h: usize = self.id.bytes().fold(7usize, |a, b| a.wrapping_mul(31).wrapping_add(b as usize));
        let mut order: Vec<usize> = (0..n).collect();
        if h % 3 != 0 && n > 1 {
            order.rotate_left(1 + (h / 3) % (n - 1));
            if h % 2 == 0 {
                order.reverse();
            }
        }
        for i in order {
            s.push_str(&format!("ac({},{}).", self.labels[i], self.asts[i].to_text(&self.labels, ",")));
        }
        s
    }
}

pub fn default_labels(n: usize) -> Vec<String> {
    (0..n).map(|i| ((b'a' + i as u8) as char).to_string()).collect()
}

/// a mix of structured and random ADFs with n statements
pub fn rand_adf(rng: &mut StdRng, n: usize, id: String) -> AdfCase {
    let kind = rng.gen_range(0..10);
    let mut asts = Vec::new();
    match kind {
        0 => {
            // chain needing n propagation rounds, in random direction, random polarity
            let up = rng.gen_bool(0.5);
            for i in 0..n {
                let prev = if up {
                    if i == 0 { None } else { Some(i - 1) }
                } else if i == n - 1 {
                    None
                } else {
                    Some(i + 1)
                };
                asts.push(match prev {
                    None => {
                        if rng.gen_bool(0.5) { Ast::Top } else { Ast::Bot }
                    }
                    Some(p) => {
                        if rng.gen_bool(0.5) { Ast::Atom(p) } else { not(Ast::Atom(p)) }
                    }
                });
            }
        }
        1 | 2 => {
            // random truth tables over small supports
            for _ in 0..n {
                let k = rng.gen_range(0..=n.min(3));
                let mut sup: Vec<usize> = (0..n).collect();
                for i in 0..k {
                    let j = rng.gen_range(i..n);
                    sup.swap(i, j);
                }
                sup.truncate(k);
                let tt = rand_tt(rng, k);
                asts.push(from_tt(tt, &sup, rng.gen_range(0..4)));
            }
        }
        3 => {
            // cycles: self-support, mutual attack, odd cycles (stable-model rich / poor)
            for i in 0..n {
                let j = (i + 1) % n;
                let r = rng.gen_range(0..6);
                asts.push(match r {
                    0 => Ast::Atom(i),
                    1 => not(Ast::Atom(j)),
                    2 => Ast::Atom(j),
                    3 => not(Ast::Atom(i)),
                    4 => and(not(Ast::Atom(j)), Ast::Atom(rng.gen_range(0..n))),
                    _ => or(Ast::Atom(j), not(Ast::Atom(rng.gen_range(0..n)))),
                });
            }
        }
        4 => {
            // self-referential conditions whose own statement is NOT the top variable of its diagram, mixed with plain links
            for i in 0..n {
                let j = rng.gen_range(0..n);
                let k = rng.gen_range(0..n);
                let inner = if rng.gen_bool(0.5) { and(Ast::Atom(i), Ast::Atom(k)) } else { or(Ast::Atom(i), not(Ast::Atom(k))) };
                asts.push(match rng.gen_range(0..5) {
                    0 => or(Ast::Atom(j), inner),
                    1 => and(Ast::Atom(j), inner),
                    2 => Ast::Atom(j),
                    3 => not(Ast::Atom(j)),
                    _ => xor(Ast::Atom(j), inner),
                });
            }
        }
        _ => {
            let d = rng.gen_range(1..=3);
            for _ in 0..n {
                asts.push(rand_ast(rng, n, d, None));
            }
        }
    }
    AdfCase { id, labels: default_labels(n), asts }
}

/// A composed framework: independent blocks (random ADFs of 1-5 statements each) interleaved at random positions, plus observer
/// statements whose conditions mention block statements only. Returns the case, the blocks and the observers (0-based positions).
/// The decomposition is only a CLAIM of the harness; TLC verifies it on the logged ASTs before it uses it.
pub fn composed_adf(rng: &mut StdRng, id: String, nmin: usize, nmax: usize) -> (AdfCase, Vec<Vec<usize>>, Vec<usize>) {
    let n = rng.gen_range(nmin..=nmax);
    let nobs = rng.gen_range(0..=3usize.min(n / 4));
    let nbase = n - nobs;
    // block sizes
    let mut sizes: Vec<usize> = Vec::new();
    let mut left = nbase;
    while left > 0 {
        let m = rng.gen_range(1..=5usize.min(left));
        sizes.push(m);
        left -= m;
    }
    // random interleaving of all positions
    let mut perm: Vec<usize> = (0..n).collect();
    for i in 0..n {
        let j = rng.gen_range(i..n);
        perm.swap(i, j);
    }
    let mut asts: Vec<Ast> = vec![Ast::Top; n];
    let mut blocks: Vec<Vec<usize>> = Vec::new();
    let mut at = 0;
    for (k, m) in sizes.iter().enumerate() {
        let mut blk: Vec<usize> = perm[at..at + m].to_vec();
        at += m;
        if rng.gen_bool(0.5) {
            blk.sort();
        }
        let local = rand_adf(rng, *m, format!("{}b{}", id, k));
        for i in 0..*m {
            let b2 = blk.clone();
            asts[blk[i]] = local.asts[i].map_atoms(&move |a| b2[a]);
        }
        blocks.push(blk);
    }
    let base: Vec<usize> = perm[..nbase].to_vec();
    let observers: Vec<usize> = perm[nbase..].to_vec();
    for o in observers.iter() {
        let k = rng.gen_range(1..=6usize.min(nbase));
        let mut sup = base.clone();
        for i in 0..k {
            let j = rng.gen_range(i..sup.len());
            sup.swap(i, j);
        }
        sup.truncate(k);
        asts[*o] = if rng.gen_bool(0.5) { from_tt(rand_tt(rng, k.min(4)), &sup[..k.min(4)], rng.gen_range(0..4)) } else { rand_ast(rng, n, 3, Some(&sup)) };
    }
    (AdfCase { id, labels: default_labels(n), asts }, blocks, observers)
}

/// A framework with several hundred stable / two-valued models: mutual-attack pairs (2 stable models each), "exactly one of three"
/// triples (3 each) and self-supporting statements (2 two-valued models, 1 stable), interleaved. `shape` = (pairs, triples, selfs).
pub fn many_models_adf(rng: &mut StdRng, id: String, shape: (usize, usize, usize)) -> (AdfCase, Vec<Vec<usize>>, Vec<usize>) {
    let (pairs, triples, selfs) = shape;
    let n = 2 * pairs + 3 * triples + selfs;
    let mut perm: Vec<usize> = (0..n).collect();
    for i in 0..n {
        let j = rng.gen_range(i..n);
        perm.swap(i, j);
    }
    let mut asts: Vec<Ast> = vec![Ast::Top; n];
    let mut blocks: Vec<Vec<usize>> = Vec::new();
    let mut at = 0;
    for _ in 0..pairs {
        let (a, b) = (perm[at], perm[at + 1]);
        at += 2;
        asts[a] = not(Ast::Atom(b));
        asts[b] = not(Ast::Atom(a));
        blocks.push(vec![a, b]);
    }
    for _ in 0..triples {
        let (a, b, c) = (perm[at], perm[at + 1], perm[at + 2]);
        at += 3;
        asts[a] = and(not(Ast::Atom(b)), not(Ast::Atom(c)));
        asts[b] = and(not(Ast::Atom(a)), not(Ast::Atom(c)));
        asts[c] = and(not(Ast::Atom(a)), not(Ast::Atom(b)));
        blocks.push(vec![a, b, c]);
    }
    for _ in 0..selfs {
        let a = perm[at];
        at += 1;
        asts[a] = Ast::Atom(a);
        blocks.push(vec![a]);
    }
    (AdfCase { id, labels: default_labels(n), asts }, blocks, vec![])
}
