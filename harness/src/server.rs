//! C16 / C17: the unmodified adf-bdd-server binary between a raw HTTP client (one cookie jar per principal) and the
//! MongoDB wire stub (recorder and scheduler).  Everything observed - requests, responses, database commands, database
//! contents after every step - is logged; TLC judges.
use crate::gen::*;
use crate::syntax::*;
use crate::util::*;
use rand::rngs::StdRng;
use rand::{Rng, SeedableRng};
use serde_json::{json, Value};
use std::io::{BufRead, BufReader, Read, Write};
use std::net::TcpStream;
use std::process::{Child, Command, Stdio};
use std::time::{Duration, Instant};

const DATA_PORT: u16 = 27117;
const CTRL_PORT: u16 = 27118;
const HTTP_PORT: u16 = 8080;

pub struct Ctrl {
    r: BufReader<TcpStream>,
    w: TcpStream,
}
impl Ctrl {
    fn connect() -> Ctrl {
        let s = TcpStream::connect(("127.0.0.1", CTRL_PORT)).expect("stub control port");
        Ctrl { r: BufReader::new(s.try_clone().unwrap()), w: s }
    }
    pub fn cmd(&mut self, v: Value) -> Value {
        writeln!(self.w, "{}", v).unwrap();
        let mut line = String::new();
        self.r.read_line(&mut line).unwrap();
        serde_json::from_str(&line).unwrap_or(json!({"ok": false}))
    }
}

pub struct Resp {
    pub status: u16,
    pub set_cookie: Option<String>,
    pub body: String,
    pub json: bool,
}

pub fn http(method: &str, path: &str, cookie: Option<&str>, ctype: Option<&str>, body: &[u8]) -> Resp {
    let mut s = match TcpStream::connect(("127.0.0.1", HTTP_PORT)) {
        Ok(s) => s,
        Err(_) => return Resp { status: 0, set_cookie: None, body: "connect failed".into(), json: false },
    };
    let _ = s.set_read_timeout(Some(Duration::from_secs(60)));
    let mut req = format!("{} {} HTTP/1.1\r\nHost: localhost\r\nConnection: close\r\nContent-Length: {}\r\n", method, path, body.len());
    if let Some(c) = cookie {
        req.push_str(&format!("Cookie: {}\r\n", c));
    }
    if let Some(t) = ctype {
        req.push_str(&format!("Content-Type: {}\r\n", t));
    }
    req.push_str("\r\n");
    let mut bytes = req.into_bytes();
    bytes.extend_from_slice(body);
    if s.write_all(&bytes).is_err() {
        return Resp { status: 0, set_cookie: None, body: "write failed".into(), json: false };
    }
    let mut buf = Vec::new();
    let _ = s.read_to_end(&mut buf);
    let text = String::from_utf8_lossy(&buf).to_string();
    let (head, rest) = match text.find("\r\n\r\n") {
        Some(i) => (text[..i].to_string(), text[i + 4..].to_string()),
        None => (text.clone(), String::new()),
    };
    let status: u16 = head.split_whitespace().nth(1).and_then(|x| x.parse().ok()).unwrap_or(0);
    let mut set_cookie = None;
    let mut is_json = false;
    let mut chunked = false;
    for l in head.lines().skip(1) {
        let ll = l.to_ascii_lowercase();
        if ll.starts_with("set-cookie:") {
            let v = l[11..].trim();
            set_cookie = Some(v.split(';').next().unwrap_or("").to_string());
        }
        if ll.starts_with("content-type:") && ll.contains("json") {
            is_json = true;
        }
        if ll.starts_with("transfer-encoding:") && ll.contains("chunked") {
            chunked = true;
        }
    }
    let body = if chunked { dechunk(&rest) } else { rest };
    Resp { status, set_cookie, body, json: is_json }
}

fn dechunk(s: &str) -> String {
    let mut out = String::new();
    let mut rest = s;
    loop {
        let i = match rest.find("\r\n") { Some(i) => i, None => break };
        let n = usize::from_str_radix(rest[..i].trim(), 16).unwrap_or(0);
        if n == 0 { break; }
        let start = i + 2;
        if start + n > rest.len() { out.push_str(&rest[start..]); break; }
        out.push_str(&rest[start..start + n]);
        rest = &rest[(start + n + 2).min(rest.len())..];
    }
    out
}

pub struct Procs {
    stub: Child,
    server: Child,
}
impl Drop for Procs {
    fn drop(&mut self) {
        let _ = self.server.kill();
        let _ = self.stub.kill();
        let _ = self.server.wait();
        let _ = self.stub.wait();
    }
}

pub fn start(stub_bin: &str, server_bin: &str, work: &str) -> Result<Procs, String> {
    let dir = format!("{}/srv", work);
    std::fs::create_dir_all(format!("{}/assets", dir)).map_err(|e| e.to_string())?;
    std::fs::write(format!("{}/assets/index.html", dir), "<html></html>").map_err(|e| e.to_string())?;
    let stub = Command::new(stub_bin).arg(DATA_PORT.to_string()).arg(CTRL_PORT.to_string()).stdout(Stdio::null()).stderr(Stdio::null()).spawn().map_err(|e| format!("stub: {}", e))?;
    let t0 = Instant::now();
    while TcpStream::connect(("127.0.0.1", CTRL_PORT)).is_err() {
        if t0.elapsed() > Duration::from_secs(10) { return Err("stub did not come up".into()); }
        std::thread::sleep(Duration::from_millis(50));
    }
    let log = std::fs::File::create(format!("{}/server.log", dir)).map_err(|e| e.to_string())?;
    let server = Command::new(server_bin).current_dir(&dir).env("MONGODB_URI", format!("mongodb://127.0.0.1:{}", DATA_PORT)).env("RUST_BACKTRACE", "0")
        .stdout(Stdio::null()).stderr(log).spawn().map_err(|e| format!("server: {}", e))?;
    let mut p = Procs { stub, server };
    let t0 = Instant::now();
    loop {
        if TcpStream::connect(("127.0.0.1", HTTP_PORT)).is_ok() { break; }
        if let Ok(Some(st)) = p.server.try_wait() { return Err(format!("server exited early: {}", st)); }
        if t0.elapsed() > Duration::from_secs(30) { return Err("server did not come up (port 8080 busy?)".into()); }
        std::thread::sleep(Duration::from_millis(100));
    }
    Ok(p)
}

// ------------------------------------------------------------------------------------------------ observation helpers
fn ids(v: &Value) -> Value {
    // {"3": "a", ...} -> [[3, cps("a")], ...] sorted by id
    let mut out: Vec<(i64, Value)> = v.as_object().map(|m| m.iter().map(|(k, x)| (k.parse().unwrap_or(-1), x.clone())).collect()).unwrap_or_default();
    out.sort_by_key(|x| x.0);
    Value::Array(out.into_iter().map(|(k, x)| match x {
        Value::String(s) => json!([k, cps(&s)]),
        Value::Array(a) => json!([k, a.iter().map(|l| cps(l.as_str().unwrap_or(""))).collect::<Vec<_>>()]),
        o => json!([k, o]),
    }).collect())
}
fn edges(v: &Value) -> Value {
    Value::Array(v.as_array().map(|a| a.iter().map(|e| json!([e[0].as_str().and_then(|s| s.parse::<i64>().ok()).unwrap_or(-1), e[1].as_str().and_then(|s| s.parse::<i64>().ok()).unwrap_or(-1)])).collect()).unwrap_or_default())
}
fn slim_acs(v: &Value) -> Value {
    // OptionWithError<Vec<AcAndGraph>> -> {"type", "models": [{"ac":[ints], "graph":{...}}], "err"}
    let ty = v["type"].as_str().unwrap_or("None").to_string();
    let models: Vec<Value> = if ty == "Some" {
        v["content"].as_array().map(|a| a.iter().map(|m| json!({
            "ac": m["ac"].as_array().map(|x| x.iter().map(|t| t.as_str().and_then(|s| s.parse::<i64>().ok()).unwrap_or(-1)).collect::<Vec<_>>()).unwrap_or_default(),
            "labels": ids(&m["graph"]["node_labels"]), "roots": ids(&m["graph"]["tree_root_labels"]),
            "lo": edges(&m["graph"]["lo_edges"]), "hi": edges(&m["graph"]["hi_edges"])})).collect()).unwrap_or_default()
    } else { vec![] };
    json!({"type": ty, "models": models, "err": if ty == "Error" { v["content"].as_str().unwrap_or("").chars().take(80).collect::<String>() } else { String::new() }})
}
const STRATS: [(&str, &str); 7] = [("parse_only", "Parse"), ("ground", "Ground"), ("complete", "Complete"), ("stable", "Stable"),
    ("stable_counting_a", "StableCountingA"), ("stable_counting_b", "StableCountingB"), ("stable_nogood", "StableNogood")];

/// AdfProblemInfo (HTTP) or AdfProblem (database document) in a TLC-friendly shape
fn slim_problem(v: &Value) -> Value {
    let mut per = Vec::new();
    for (field, name) in STRATS {
        let mut s = slim_acs(&v["acs_per_strategy"][field]);
        s["strategy"] = json!(name);
        per.push(s);
    }
    let running: Vec<Value> = v["running_tasks"].as_array().map(|a| a.iter().map(|t| json!(if t["type"] == "Parse" { "Parse".to_string() } else { t["content"].as_str().unwrap_or("?").to_string() })).collect()).unwrap_or_default();
    let code = v["code"].as_str().unwrap_or("");
    json!({"name": v["name"].as_str().unwrap_or(""), "username": v["username"].as_str().unwrap_or(""), "code": code, "code_cp": cps(code),
           "parsing": v["parsing_used"].as_str().unwrap_or(""), "adf_type": v["adf"]["type"].as_str().unwrap_or("na"),
           "per": per, "running": running, "id": v["_id"]["$oid"].as_str().unwrap_or("")})
}

pub struct Session {
    pub me: Vec<String>,
    pub final_phase: bool,
    pub ctrl: Ctrl,
    pub jars: Vec<Option<String>>,
    pub out: Vec<Value>,
    pub seq: usize,
    pub scen: String,
    pub expected_updates: usize,
    /// cookie jar (device) -> person; empty = every jar is its own person
    pub person: Vec<usize>,
}

fn multipart(fields: &[(&str, &str)]) -> (String, Vec<u8>) {
    let b = "----verifboundary7d81";
    let mut body = Vec::new();
    for (k, v) in fields {
        body.extend_from_slice(format!("--{}\r\nContent-Disposition: form-data; name=\"{}\"\r\n\r\n", b, k).as_bytes());
        body.extend_from_slice(v.as_bytes());
        body.extend_from_slice(b"\r\n");
    }
    body.extend_from_slice(format!("--{}--\r\n", b).as_bytes());
    (format!("multipart/form-data; boundary={}", b), body)
}

impl Session {
    fn dump(&mut self) -> Value {
        let d = self.ctrl.cmd(json!({"cmd": "dump"}));
        let users: Vec<Value> = d["db"]["adf-obdd.users"].as_array().cloned().unwrap_or_default().iter()
            .map(|u| {
                let pw = u["password"].as_str().map(|x| x.to_string()).unwrap_or_else(|| "null".to_string());
                json!({"username": u["username"], "password": pw, "pw_prefix": pw.chars().take(7).collect::<String>(), "id": u["_id"]["$oid"]})
            }).collect();
        let probs: Vec<Value> = d["db"]["adf-obdd.adf-problems"].as_array().cloned().unwrap_or_default().iter().map(slim_problem).collect();
        json!({"users": users, "probs": probs, "unknown": d["unknown"]})
    }

    /// one request by principal p (None = anonymous, no jar); records request, response, db commands, db contents
    pub fn req(&mut self, p: Option<usize>, op: &str, args: Value) -> (u16, Value) {
        let cookie = p.and_then(|i| self.jars[i].clone());
        let (method, path, ctype, body): (&str, String, Option<String>, Vec<u8>) = match op {
            "register" => ("POST", "/users/register".into(), Some("application/json".into()), json!({"username": args["username"], "password": args["password"]}).to_string().into_bytes()),
            "login" => ("POST", "/users/login".into(), Some("application/json".into()), json!({"username": args["username"], "password": args["password"]}).to_string().into_bytes()),
            "logout" => ("DELETE", "/users/logout".into(), None, vec![]),
            "info" => ("GET", "/users/info".into(), None, vec![]),
            "update" => ("PUT", "/users/update".into(), Some("application/json".into()), json!({"username": args["username"], "password": args["password"]}).to_string().into_bytes()),
            "delete_account" => ("DELETE", "/users/delete".into(), None, vec![]),
            "add" => {
                let (ct, b) = multipart(&[("name", args["name"].as_str().unwrap_or("")), ("code", args["code"].as_str().unwrap_or("")), ("parsing", args["parsing"].as_str().unwrap_or("Naive"))]);
                ("POST", "/adf/add".into(), Some(ct), b)
            }
            "solve" => ("PUT", format!("/adf/{}/solve", args["name"].as_str().unwrap_or("")), Some("application/json".into()), json!({"strategy": args["strategy"]}).to_string().into_bytes()),
            "get" => ("GET", format!("/adf/{}", args["name"].as_str().unwrap_or("")), None, vec![]),
            "list" => ("GET", "/adf/".into(), None, vec![]),
            "delete" => ("DELETE", format!("/adf/{}", args["name"].as_str().unwrap_or("")), None, vec![]),
            _ => panic!("unknown op"),
        };
        let mut args = args;
        if op == "add" {
            args["code_cp"] = cps(args["code"].as_str().unwrap_or(""));
        }
        let r = http(method, &path, cookie.as_deref(), ctype.as_deref(), &body);
        if let (Some(i), Some(c)) = (p, &r.set_cookie) {
            // an emptied cookie means logout
            let val = c.split('=').nth(1).unwrap_or("");
            self.jars[i] = if val.is_empty() { None } else { Some(c.clone()) };
        }
        let parsed: Value = if r.json { serde_json::from_str(&r.body).unwrap_or(Value::Null) } else { Value::Null };
        let body_j = match op {
            "get" if r.status == 200 => json!({"problem": slim_problem(&parsed)}),
            "list" if r.status == 200 => json!({"problems": parsed.as_array().map(|a| a.iter().map(slim_problem).collect::<Vec<_>>()).unwrap_or_default()}),
            "info" | "update" if r.status == 200 => json!({"username": parsed["username"], "temp": parsed["temp"]}),
            _ => json!({"text": r.body.chars().take(120).collect::<String>()}),
        };
        if (op == "add" || op == "solve") && r.status == 200 {
            self.expected_updates += 1;
        }
        self.seq += 1;
        let me_before = p.map(|i| self.me[i].clone()).unwrap_or_else(|| "-".to_string());
        if let Some(i) = p {
            if r.status == 200 {
                match op {
                    "login" | "update" => self.me[i] = args["username"].as_str().unwrap_or("").to_string(),
                    "logout" | "delete_account" => self.me[i] = "-".to_string(),
                    "add" if cookie.is_none() => self.me[i] = "<temp>".to_string(),
                    _ => {}
                }
            } else if op == "info" && r.status == 404 {
                self.me[i] = "-".to_string();
            }
        }
        // the database commands issued while this request was in flight (plus, possibly, result writes of earlier tasks)
        let during = self.ctrl.cmd(json!({"cmd": "log"}));
        let mut dbcmds: Vec<Value> = Vec::new();
        if let Some(a) = during["log"].as_array() {
            for e in a {
                let is_task_write = e["cmd"] == "update" && e["coll"] == "adf-problems"
                    && e["update_keys"].as_array().map(|k| k.iter().any(|x| x.as_str().map(|s| s.starts_with("acs_per_strategy") || s == "adf").unwrap_or(false))).unwrap_or(false);
                if is_task_write {
                    self.expected_updates = self.expected_updates.saturating_sub(1);
                }
                let mut keys: Vec<String> = e["filter"].as_object().map(|m| m.keys().cloned().collect()).unwrap_or_default();
                keys.sort();
                dbcmds.push(json!({"cmd": e["cmd"], "coll": e["coll"], "keys": keys, "task": is_task_write, "n": e["n"]}));
            }
        }
        let person = |jar: usize| self.person.get(jar).copied().unwrap_or(jar);
        let mut rec = json!({"kind": "http", "id": format!("{}#{}", self.scen, self.seq), "p": p.map(|x| person(x) as i64 + 1).unwrap_or(0),
                         "dev": p.map(|x| x as i64 + 1).unwrap_or(0), "op": op, "args": args, "db": dbcmds,
                         "had_cookie": cookie.is_some(), "status": r.status, "body": body_j, "cookie_after": p.map(|i| self.jars[i].is_some()).unwrap_or(false),
                         "me": me_before});
        if self.final_phase {
            rec["final"] = json!(true);
        }
        self.out.push(rec);
        (r.status, parsed)
    }

    /// wait until every accepted add / solve has written its result (the natural schedule), then log db commands + contents
    pub fn settle(&mut self, wait: bool) {
        let t0 = Instant::now();
        let mut log: Vec<Value> = Vec::new();
        loop {
            let l = self.ctrl.cmd(json!({"cmd": "log"}));
            if let Some(a) = l["log"].as_array() {
                for e in a {
                    if e["cmd"] == "update" && e["coll"] == "adf-problems" && e["update_keys"].as_array().map(|k| k.iter().any(|x| x.as_str().map(|s| s.starts_with("acs_per_strategy") || s == "adf").unwrap_or(false))).unwrap_or(false) {
                        self.expected_updates = self.expected_updates.saturating_sub(1);
                    }
                    log.push(e.clone());
                }
            }
            if !wait || self.expected_updates == 0 || t0.elapsed() > Duration::from_secs(60) {
                break;
            }
            std::thread::sleep(Duration::from_millis(15));
        }
        let d = self.dump();
        self.seq += 1;
        let mut rec = json!({"kind": "db", "id": format!("{}#{}", self.scen, self.seq), "log": log, "dump": d, "pending_writes": self.expected_updates});
        if self.final_phase {
            rec["final"] = json!(true);
        }
        self.out.push(rec);
    }
}

// ------------------------------------------------------------------------------------------------ scenarios
struct CodePool {
    texts: Vec<(String, Value)>, // (code text, asts by declaration order | null for bad codes)
}

fn principal_code(rng: &mut StdRng, p: usize, k: usize) -> (String, String) {
    // statement labels carry the principal and a serial, so any returned code identifies who submitted it
    let n = rng.gen_range(1..=4);
    let case = rand_adf(rng, n, String::new());
    let labels: Vec<String> = (0..n).map(|i| format!("p{}k{}s{}", p + 1, k, i)).collect();
    let facts = if rng.gen_bool(0.5) { canonical_facts(n) } else { shuffled_facts(rng, n) };
    let lay = if rng.gen_bool(0.6) { plain_layout() } else { rand_layout(rng) };
    let text = render(&labels, &case.asts, &facts, &lay);
    let kind = rng.gen_range(0..100);
    if kind < 8 {
        (mutate(rng, &text), "maybe-bad".into())
    } else if kind < 13 {
        (format!("{}ac({},undeclared{}).", text, labels[0], p), "undeclared".into())
    } else {
        (text, "good".into())
    }
}

fn random_scenario(rng: &mut StdRng, s: &mut Session, idx: usize) {
    let np = rng.gen_range(1..=3);
    s.jars = vec![None; 3];
    s.me = vec!["-".to_string(); 3];
    s.expected_updates = 0;
    s.ctrl.cmd(json!({"cmd": "reset"}));
    s.scen = format!("r{}", idx);
    s.seq = 0;
    s.out.push(json!({"kind": "reset", "id": s.scen, "principals": np}));
    // a third of the scenarios use look-alike account names (a trailing blank, another case): accounts are identified by the
    // exact string, whatever a handler normalises must not merge them
    let names = if idx % 3 == 1 {
        [format!("dana{}", idx), format!("dana{} ", idx), format!("Dana{}", idx)]
    } else {
        [format!("alice{}", idx), format!("bob{}", idx), format!("carol{}", idx)]
    };
    // every principal knows only its own passwords (two per principal); account names are free for whoever registers first
    // the two passwords of a person share a prefix longer than 64 bytes and differ only in the tail; the "wrong" password
    // tried against the own account is always the OTHER own one (anything that looks at a prefix only accepts it)
    let pw_of = |p: usize, k: usize| format!("pw-{}-correct-horse-battery-staple-0123456789-abcdefghijklmnopqrstuvwxyz-{}-tail{}", ["A", "B", "C"][p], idx % 7, k);
    let mut cur_pw: Vec<String> = (0..3).map(|p| pw_of(p, 0)).collect();
    let mut cur_name: Vec<String> = (0..3).map(|p| names[p].clone()).collect();
    let pnames = [format!("P{}", idx), format!("Q{}", idx)];
    let strategies = ["Ground", "Complete", "Stable", "StableCountingA", "StableCountingB", "StableNogood"];
    let steps = rng.gen_range(6..=16);
    let mut serial = 0;
    // most scenarios start with registrations + logins so that the interesting part is reached
    for p in 0..np {
        if rng.gen_bool(0.75) {
            s.req(Some(p), "register", json!({"username": names[p], "password": cur_pw[p]}));
            s.settle(true);
            s.req(Some(p), "login", json!({"username": names[p], "password": cur_pw[p]}));
            s.settle(true);
        }
    }
    let mut calm = false; // after a step that did not wait for its task: only reads / solves / further adds (key-changing races are separate scenarios)
    for _ in 0..steps {
        let p = rng.gen_range(0..np);
        let who = if rng.gen_range(0..100) < 6 { None } else { Some(p) };
        let k = if calm { [35, 60, 80, 90][rng.gen_range(0..4)] } else { rng.gen_range(0..100) };
        let mut wait = true;
        if k < 5 {
            // possibly a second account of the same person, with the same password (salting)
            let n = if rng.gen_bool(0.5) { cur_name[p].clone() } else { format!("{}y{}", names[p], rng.gen_range(0..2)) };
            let (st, _) = s.req(who, "register", json!({"username": n, "password": cur_pw[p]}));
            if st == 200 && who.is_some() { cur_name[p] = n; }
        } else if k < 13 {
            // own account with the right or a wrong password; a foreign account with the own password (never valid there)
            let r = rng.gen_range(0..10);
            if r < 6 {
                s.req(who, "login", json!({"username": cur_name[p], "password": cur_pw[p]}));
            } else if r < 8 {
                let other = if cur_pw[p] == pw_of(p, 0) { pw_of(p, 1) } else { pw_of(p, 0) };
                s.req(who, "login", json!({"username": cur_name[p], "password": if rng.gen_bool(0.7) { other } else { cur_pw[p][..64].to_string() }}));
            } else {
                let a = (p + 1 + rng.gen_range(0..2)) % 3;
                s.req(who, "login", json!({"username": cur_name[a], "password": cur_pw[p]}));
            }
        } else if k < 17 {
            s.req(who, "logout", json!({}));
        } else if k < 21 {
            s.req(who, "info", json!({}));
        } else if k < 27 {
            // rename and / or new password; sometimes onto a name somebody else holds
            let tgt = match rng.gen_range(0..10) { 0..=4 => format!("{}x", names[p]), 5..=6 => cur_name[p].clone(), _ => cur_name[(p + 1) % 3].clone() };
            let npw = if rng.gen_bool(0.5) { cur_pw[p].clone() } else { pw_of(p, rng.gen_range(0..2)) };
            let (st, _) = s.req(who, "update", json!({"username": tgt, "password": npw}));
            if st == 200 && who.is_some() { cur_name[p] = tgt; cur_pw[p] = npw; }
        } else if k < 30 {
            s.req(who, "delete_account", json!({}));
        } else if k < 52 {
            serial += 1;
            let (code, class) = principal_code(rng, p, serial);
            let name = if rng.gen_range(0..100) < 8 { String::new() } else { pnames[rng.gen_range(0..2)].clone() };
            s.req(who, "add", json!({"name": name, "code": code, "parsing": if rng.gen_bool(0.5) { "Naive" } else { "Hybrid" }, "class": class}));
            if rng.gen_range(0..100) < 15 {
                wait = false; // the next request may arrive before the parse task has written its result
            }
        } else if k < 72 {
            s.req(who, "solve", json!({"name": pnames[rng.gen_range(0..2)], "strategy": strategies[rng.gen_range(0..6)]}));
            if rng.gen_range(0..100) < 20 {
                wait = false;
            }
        } else if k < 88 {
            s.req(who, "get", json!({"name": pnames[rng.gen_range(0..2)]}));
        } else if k < 95 {
            s.req(who, "list", json!({}));
        } else {
            s.req(who, "delete", json!({"name": pnames[rng.gen_range(0..2)]}));
        }
        s.settle(wait);
        calm = !wait;
    }
    // closing probes: everybody (and nobody) looks at every problem name and lists
    s.settle(true);
    s.final_phase = true;
    for p in 0..np {
        for pn in &pnames {
            s.req(Some(p), "get", json!({"name": pn}));
        }
        s.req(Some(p), "list", json!({}));
    }
    for pn in &pnames {
        s.req(None, "get", json!({"name": pn}));
    }
    s.req(None, "list", json!({}));
    s.settle(true);
    s.final_phase = false;
}

/// the straight-line happy path with every strategy, both parsings (always the first scenario)
fn happy_path(s: &mut Session) {
    s.jars = vec![None; 3];
    s.me = vec!["-".to_string(); 3];
    s.ctrl.cmd(json!({"cmd": "reset"}));
    s.scen = "happy".into();
    s.seq = 0;
    s.expected_updates = 0;
    s.out.push(json!({"kind": "reset", "id": s.scen, "principals": 1}));
    s.req(Some(0), "register", json!({"username": "hp", "password": "secret-1"}));
    s.settle(true);
    s.req(Some(0), "login", json!({"username": "hp", "password": "secret-1"}));
    s.settle(true);
    for (i, parsing) in ["Naive", "Hybrid"].iter().enumerate() {
        let name = format!("H{}", i);
        s.req(Some(0), "add", json!({"name": name, "parsing": parsing, "class": "good",
            "code": "s(a).s(b).s(c).s(d).ac(a,c(v)).ac(b,or(a,b)).ac(c,neg(b)).ac(d,d)."}));
        s.settle(true);
        s.req(Some(0), "get", json!({"name": name}));
        for st in ["Ground", "Complete", "Stable", "StableCountingA", "StableCountingB", "StableNogood"] {
            s.req(Some(0), "solve", json!({"name": name, "strategy": st}));
            s.settle(true);
            s.req(Some(0), "get", json!({"name": name}));
        }
        s.req(Some(0), "solve", json!({"name": name, "strategy": "Stable"})); // second time: refused
        s.settle(true);
    }
    // the same strategies in the opposite order on a third problem: whichever slot a handler looks at, every strategy can be had
    // after any other one
    s.req(Some(0), "add", json!({"name": "HR", "parsing": "Naive", "class": "good",
        "code": "s(a).s(b).s(c).ac(a,neg(b)).ac(b,neg(a)).ac(c,and(a,neg(b)))."}));
    s.settle(true);
    for st in ["StableNogood", "StableCountingB", "StableCountingA", "Stable", "Complete", "Ground"] {
        s.req(Some(0), "solve", json!({"name": "HR", "strategy": st}));
        s.settle(true);
    }
    s.req(Some(0), "get", json!({"name": "HR"}));
    s.req(Some(0), "add", json!({"name": "BAD", "parsing": "Naive", "class": "bad", "code": "s(a).ac(a,and(a)."}));
    s.settle(true);
    s.req(Some(0), "get", json!({"name": "BAD"}));
    s.req(Some(0), "solve", json!({"name": "BAD", "strategy": "Ground"}));
    s.settle(true);
    s.final_phase = true;
    s.req(Some(0), "get", json!({"name": "H0"}));
    s.req(Some(0), "get", json!({"name": "H1"}));
    s.req(Some(0), "get", json!({"name": "HR"}));
    s.req(Some(0), "list", json!({}));
    s.settle(true);
    s.final_phase = false;
}

/// known-finding shapes replayed on the binary with the stub as scheduler (holds)
fn race_rename_window(s: &mut Session) {
    s.jars = vec![None; 3];
    s.me = vec!["-".to_string(); 3];
    s.ctrl.cmd(json!({"cmd": "reset"}));
    s.scen = "race-rename".into();
    s.seq = 0;
    s.expected_updates = 0;
    s.out.push(json!({"kind": "reset", "id": s.scen, "principals": 2, "race": "rename-window"}));
    s.req(Some(0), "register", json!({"username": "rwalice", "password": "pw-A-1"}));
    s.req(Some(0), "login", json!({"username": "rwalice", "password": "pw-A-1"}));
    s.req(Some(0), "add", json!({"name": "RW", "parsing": "Naive", "class": "good", "code": "s(p1k1s0).ac(p1k1s0,c(v))."}));
    s.settle(true);
    // hold A's update_many on the problems collection
    let h = s.ctrl.cmd(json!({"cmd": "hold", "match": {"cmd": "update", "coll": "adf-problems", "contains": "rwcarol"}}));
    let hid = h["hold"].as_u64().unwrap_or(0);
    let jar_a = s.jars[0].clone();
    // the request is launched now; its response is recorded when it returns (after the other person's requests)
    s.out.push(json!({"kind": "http_start", "id": format!("{}#launch", s.scen), "p": 1, "op": "update", "args": {"username": "rwcarol", "password": "pw-A-1"}}));
    let t = std::thread::spawn(move || {
        http("PUT", "/users/update", jar_a.as_deref(), Some("application/json"), json!({"username": "rwcarol", "password": "pw-A-1"}).to_string().as_bytes())
    });
    let held = s.ctrl.cmd(json!({"cmd": "held", "hold": hid, "wait_ms": 15000}));
    let parked = held["held"].as_array().map(|a| !a.is_empty()).unwrap_or(false);
    s.out.push(json!({"kind": "note", "id": format!("{}#hold", s.scen), "parked": parked}));
    // B takes the vacated name while A's rename is half done
    s.req(Some(1), "register", json!({"username": "rwalice", "password": "pw-B-2"}));
    s.req(Some(1), "login", json!({"username": "rwalice", "password": "pw-B-2"}));
    s.req(Some(1), "list", json!({}));
    s.req(Some(1), "get", json!({"name": "RW"}));
    s.ctrl.cmd(json!({"cmd": "release", "id": hid}));
    let ra = t.join().unwrap();
    s.seq += 1;
    s.out.push(json!({"kind": "http", "id": format!("{}#{}", s.scen, s.seq), "p": 1, "op": "update", "args": {"username": "rwcarol", "password": "pw-A-1"}, "had_cookie": true,
                      "status": ra.status, "body": {"text": ""}, "cookie_after": true, "concurrent": true, "me": "rwalice", "db": []}));
    s.settle(true);
}

fn race_stale_write(s: &mut Session) {
    s.jars = vec![None; 3];
    s.me = vec!["-".to_string(); 3];
    s.ctrl.cmd(json!({"cmd": "reset"}));
    s.scen = "race-stale".into();
    s.seq = 0;
    s.expected_updates = 0;
    s.out.push(json!({"kind": "reset", "id": s.scen, "principals": 1, "race": "stale-task-write"}));
    s.req(Some(0), "register", json!({"username": "swuser", "password": "pw-A-1"}));
    s.req(Some(0), "login", json!({"username": "swuser", "password": "pw-A-1"}));
    s.req(Some(0), "add", json!({"name": "SW", "parsing": "Naive", "class": "good", "code": "s(p1k1s0).s(p1k1s1).ac(p1k1s0,neg(p1k1s1)).ac(p1k1s1,neg(p1k1s0))."}));
    s.settle(true);
    let h = s.ctrl.cmd(json!({"cmd": "hold", "match": {"cmd": "update", "coll": "adf-problems", "contains": "acs_per_strategy.stable"}}));
    let hid = h["hold"].as_u64().unwrap_or(0);
    s.req(Some(0), "solve", json!({"name": "SW", "strategy": "Stable"}));
    let held = s.ctrl.cmd(json!({"cmd": "held", "hold": hid, "wait_ms": 15000}));
    let parked = held["held"].as_array().map(|a| !a.is_empty()).unwrap_or(false);
    s.out.push(json!({"kind": "note", "id": format!("{}#hold", s.scen), "parked": parked}));
    s.req(Some(0), "delete", json!({"name": "SW"}));
    s.req(Some(0), "add", json!({"name": "SW", "parsing": "Naive", "class": "good", "code": "s(p1k2s0).ac(p1k2s0,c(f))."}));
    s.settle(false);
    std::thread::sleep(Duration::from_millis(300));
    s.ctrl.cmd(json!({"cmd": "release", "id": hid}));
    s.expected_updates = 0;
    std::thread::sleep(Duration::from_millis(500));
    s.settle(false);
    s.req(Some(0), "get", json!({"name": "SW"}));
    s.settle(false);
}

/// F12: a session outlives the account it was issued for.  Person A is logged in on two devices (two cookie jars), vacates
/// the account name on the first (account deletion, or a rename), person B registers the vacated name - and A's second
/// device, whose cookie still says that name, is now inside B's account.  No timing is involved: every request runs alone.
fn stale_session(s: &mut Session, by_rename: bool) {
    s.jars = vec![None; 4];
    s.me = vec!["-".to_string(); 4];
    s.person = vec![0, 1, 2, 0];          // jar 3 is the second device of person 0
    s.ctrl.cmd(json!({"cmd": "reset"}));
    s.scen = if by_rename { "stale-session-rename".into() } else { "stale-session-delete".into() };
    s.seq = 0;
    s.expected_updates = 0;
    s.out.push(json!({"kind": "reset", "id": s.scen, "principals": 2, "race": "stale-session"}));
    s.req(Some(0), "register", json!({"username": "ssalice", "password": "pw-A-1"}));
    s.req(Some(0), "login", json!({"username": "ssalice", "password": "pw-A-1"}));
    s.req(Some(3), "login", json!({"username": "ssalice", "password": "pw-A-1"}));
    s.req(Some(0), "add", json!({"name": "MINE", "parsing": "Naive", "class": "good", "code": "s(p1k1s0).ac(p1k1s0,c(v))."}));
    s.settle(true);
    s.req(Some(3), "list", json!({}));                      // the second device sees A's own problem: fine
    if by_rename {
        s.req(Some(0), "update", json!({"username": "sscarol", "password": "pw-A-1"}));
    } else {
        s.req(Some(0), "delete_account", json!({}));
    }
    s.settle(true);
    s.req(Some(1), "register", json!({"username": "ssalice", "password": "pw-B-2"}));
    s.req(Some(1), "login", json!({"username": "ssalice", "password": "pw-B-2"}));
    s.req(Some(1), "add", json!({"name": "THEIRS", "parsing": "Naive", "class": "good", "code": "s(p2k1s0).ac(p2k1s0,c(f))."}));
    s.settle(true);
    // A's second device still carries the cookie issued for "ssalice"
    s.req(Some(3), "info", json!({}));
    s.req(Some(3), "list", json!({}));
    s.req(Some(3), "get", json!({"name": "THEIRS"}));
    s.settle(true);
    s.req(Some(3), "delete", json!({"name": "THEIRS"}));
    s.settle(true);
    s.req(Some(1), "list", json!({}));
    s.settle(true);
    s.person = Vec::new();
}

/// F14: the delete window.  Account deletion is two commands (delete_many problems, then delete_one user).  A problem that the
/// same person inserts from a second device between the two survives the account and falls to whoever registers the name next.
fn race_delete_window(s: &mut Session) {
    s.jars = vec![None; 4];
    s.me = vec!["-".to_string(); 4];
    s.person = vec![0, 1, 2, 0];
    s.ctrl.cmd(json!({"cmd": "reset"}));
    s.scen = "race-delete".into();
    s.seq = 0;
    s.expected_updates = 0;
    s.out.push(json!({"kind": "reset", "id": s.scen, "principals": 2, "race": "delete-window"}));
    s.req(Some(0), "register", json!({"username": "dwalice", "password": "pw-A-1"}));
    s.req(Some(0), "login", json!({"username": "dwalice", "password": "pw-A-1"}));
    s.req(Some(3), "login", json!({"username": "dwalice", "password": "pw-A-1"}));
    s.settle(true);
    // hold the second command of A's account deletion (delete_one on the users collection)
    let h = s.ctrl.cmd(json!({"cmd": "hold", "match": {"cmd": "delete", "coll": "users", "contains": "dwalice"}}));
    let hid = h["hold"].as_u64().unwrap_or(0);
    let jar_a = s.jars[0].clone();
    s.out.push(json!({"kind": "http_start", "id": format!("{}#launch", s.scen), "p": 1, "dev": 1, "op": "delete_account", "args": {}}));
    let t = std::thread::spawn(move || http("DELETE", "/users/delete", jar_a.as_deref(), None, &[]));
    let held = s.ctrl.cmd(json!({"cmd": "held", "hold": hid, "wait_ms": 15000}));
    let parked = held["held"].as_array().map(|a| !a.is_empty()).unwrap_or(false);
    s.out.push(json!({"kind": "note", "id": format!("{}#hold", s.scen), "parked": parked}));
    // A's other device stores a problem while the deletion is half done
    s.req(Some(3), "add", json!({"name": "ORPHAN", "parsing": "Naive", "class": "good", "code": "s(p1k1s0).ac(p1k1s0,c(v))."}));
    s.ctrl.cmd(json!({"cmd": "release", "id": hid}));
    let ra = t.join().unwrap();
    s.jars[0] = None;
    s.me[0] = "-".to_string();
    s.seq += 1;
    s.out.push(json!({"kind": "http", "id": format!("{}#{}", s.scen, s.seq), "p": 1, "dev": 1, "op": "delete_account", "args": {}, "had_cookie": true,
                      "status": ra.status, "body": {"text": ""}, "cookie_after": false, "concurrent": true, "me": "dwalice", "db": []}));
    s.settle(true);
    // B takes the free name - and inherits the orphan
    s.req(Some(1), "register", json!({"username": "dwalice", "password": "pw-B-2"}));
    s.req(Some(1), "login", json!({"username": "dwalice", "password": "pw-B-2"}));
    s.req(Some(1), "list", json!({}));
    s.req(Some(1), "get", json!({"name": "ORPHAN"}));
    s.settle(true);
    s.person = Vec::new();
}

/// whatever the second database command of an account deletion is, nobody else may get in between: the stub parks the SECOND
/// command of A's DELETE /users/delete, meanwhile B tries to take the name over.  (On the shipped order - problems first, user
/// second - the account still exists in the window and B is turned away.)
fn race_delete_second_command(s: &mut Session) {
    s.jars = vec![None; 3];
    s.me = vec!["-".to_string(); 3];
    s.ctrl.cmd(json!({"cmd": "reset"}));
    s.scen = "race-delete2".into();
    s.seq = 0;
    s.expected_updates = 0;
    s.out.push(json!({"kind": "reset", "id": s.scen, "principals": 2, "race": "delete-second-command"}));
    s.req(Some(0), "register", json!({"username": "d2alice", "password": "pw-A-1"}));
    s.req(Some(0), "login", json!({"username": "d2alice", "password": "pw-A-1"}));
    s.req(Some(0), "add", json!({"name": "MINE2", "parsing": "Naive", "class": "good", "code": "s(p1k1s0).ac(p1k1s0,c(v))."}));
    s.settle(true);
    let h = s.ctrl.cmd(json!({"cmd": "hold", "match": {"cmd": "*", "contains": "d2alice", "skip": 1}}));
    let hid = h["hold"].as_u64().unwrap_or(0);
    let jar_a = s.jars[0].clone();
    s.out.push(json!({"kind": "http_start", "id": format!("{}#launch", s.scen), "p": 1, "dev": 1, "op": "delete_account", "args": {}}));
    let t = std::thread::spawn(move || http("DELETE", "/users/delete", jar_a.as_deref(), None, &[]));
    let held = s.ctrl.cmd(json!({"cmd": "held", "hold": hid, "wait_ms": 15000}));
    let parked = held["held"].as_array().map(|a| !a.is_empty()).unwrap_or(false);
    s.out.push(json!({"kind": "note", "id": format!("{}#hold", s.scen), "parked": parked}));
    let (st, _) = s.req(Some(1), "register", json!({"username": "d2alice", "password": "pw-B-2"}));
    let early = st == 200;
    if early {
        s.req(Some(1), "login", json!({"username": "d2alice", "password": "pw-B-2"}));
        s.req(Some(1), "list", json!({}));
        s.req(Some(1), "add", json!({"name": "THEIRS2", "parsing": "Naive", "class": "good", "code": "s(p2k1s0).ac(p2k1s0,c(f))."}));
    }
    s.ctrl.cmd(json!({"cmd": "release", "id": hid}));
    let ra = t.join().unwrap();
    s.jars[0] = None;
    s.me[0] = "-".to_string();
    s.seq += 1;
    s.out.push(json!({"kind": "http", "id": format!("{}#{}", s.scen, s.seq), "p": 1, "dev": 1, "op": "delete_account", "args": {}, "had_cookie": true,
                      "status": ra.status, "body": {"text": ""}, "cookie_after": false, "concurrent": true, "me": "d2alice", "db": []}));
    s.settle(true);
    if !early {
        s.req(Some(1), "register", json!({"username": "d2alice", "password": "pw-B-2"}));
        s.req(Some(1), "login", json!({"username": "d2alice", "password": "pw-B-2"}));
        s.req(Some(1), "add", json!({"name": "THEIRS2", "parsing": "Naive", "class": "good", "code": "s(p2k1s0).ac(p2k1s0,c(f))."}));
    }
    s.settle(true);
    s.final_phase = true;
    s.req(Some(1), "list", json!({}));
    s.req(Some(1), "get", json!({"name": "THEIRS2"}));
    s.req(Some(1), "get", json!({"name": "MINE2"}));
    s.settle(true);
    s.final_phase = false;
}

/// two people rename to the SAME free name at once: the stub parks the first command of A's request that mentions A's old name
/// (after the "is the new name free" lookup), B's whole rename goes through, then A continues.  Account names are unique, so A
/// must be turned away - and must not have touched anything on the way.
fn race_rename_same_target(s: &mut Session) {
    s.jars = vec![None; 3];
    s.me = vec!["-".to_string(); 3];
    s.ctrl.cmd(json!({"cmd": "reset"}));
    s.scen = "race-rename2".into();
    s.seq = 0;
    s.expected_updates = 0;
    s.out.push(json!({"kind": "reset", "id": s.scen, "principals": 2, "race": "rename-same-target"}));
    for (p, n, pw) in [(0usize, "r2alice", "pw-A-1"), (1usize, "r2bob", "pw-B-2")] {
        s.req(Some(p), "register", json!({"username": n, "password": pw}));
        s.req(Some(p), "login", json!({"username": n, "password": pw}));
        s.req(Some(p), "add", json!({"name": format!("OWN{}", p + 1), "parsing": "Naive", "class": "good", "code": format!("s(p{}k1s0).ac(p{}k1s0,c(v)).", p + 1, p + 1)}));
        s.settle(true);
    }
    let h = s.ctrl.cmd(json!({"cmd": "hold", "match": {"cmd": "*", "contains": "r2alice"}}));
    let hid = h["hold"].as_u64().unwrap_or(0);
    let jar_a = s.jars[0].clone();
    s.out.push(json!({"kind": "http_start", "id": format!("{}#launch", s.scen), "p": 1, "dev": 1, "op": "update", "args": {"username": "r2zed", "password": "pw-A-1"}}));
    let t = std::thread::spawn(move || {
        http("PUT", "/users/update", jar_a.as_deref(), Some("application/json"), json!({"username": "r2zed", "password": "pw-A-1"}).to_string().as_bytes())
    });
    let held = s.ctrl.cmd(json!({"cmd": "held", "hold": hid, "wait_ms": 15000}));
    let parked = held["held"].as_array().map(|a| !a.is_empty()).unwrap_or(false);
    s.out.push(json!({"kind": "note", "id": format!("{}#hold", s.scen), "parked": parked}));
    s.req(Some(1), "update", json!({"username": "r2zed", "password": "pw-B-2"}));
    s.settle(true);
    s.ctrl.cmd(json!({"cmd": "release", "id": hid}));
    let ra = t.join().unwrap();
    if ra.status == 200 {
        if let Some(c) = &ra.set_cookie { s.jars[0] = Some(c.clone()); }
        s.me[0] = "r2zed".to_string();
    }
    s.seq += 1;
    s.out.push(json!({"kind": "http", "id": format!("{}#{}", s.scen, s.seq), "p": 1, "dev": 1, "op": "update", "args": {"username": "r2zed", "password": "pw-A-1"}, "had_cookie": true,
                      "status": ra.status, "body": {"text": ""}, "cookie_after": true, "concurrent": true, "me": "r2alice", "db": []}));
    s.settle(true);
    s.final_phase = true;
    for p in 0..2usize {
        s.req(Some(p), "list", json!({}));
        s.req(Some(p), "get", json!({"name": "OWN1"}));
        s.req(Some(p), "get", json!({"name": "OWN2"}));
    }
    s.settle(true);
    s.final_phase = false;
}

/// a rename takes ALL of the account's problems along (and their results), and leaves nothing behind under the old name
fn rename_keeps_problems(s: &mut Session) {
    s.jars = vec![None; 3];
    s.me = vec!["-".to_string(); 3];
    s.ctrl.cmd(json!({"cmd": "reset"}));
    s.scen = "rename-keeps".into();
    s.seq = 0;
    s.expected_updates = 0;
    s.out.push(json!({"kind": "reset", "id": s.scen, "principals": 2}));
    s.req(Some(0), "register", json!({"username": "rkalice", "password": "pw-A-1"}));
    s.req(Some(0), "login", json!({"username": "rkalice", "password": "pw-A-1"}));
    for (k, name) in ["K1", "K2", "K3"].iter().enumerate() {
        s.req(Some(0), "add", json!({"name": name, "parsing": if k == 1 { "Hybrid" } else { "Naive" }, "class": "good",
                                     "code": format!("s(p1k{}s0).s(p1k{}s1).ac(p1k{}s0,neg(p1k{}s1)).ac(p1k{}s1,neg(p1k{}s0)).", k + 1, k + 1, k + 1, k + 1, k + 1, k + 1)}));
        s.settle(true);
    }
    s.req(Some(0), "solve", json!({"name": "K2", "strategy": "Stable"}));
    s.settle(true);
    s.req(Some(0), "update", json!({"username": "rkcarol", "password": "pw-A-2"}));
    s.settle(true);
    s.req(Some(0), "solve", json!({"name": "K3", "strategy": "Complete"}));
    s.settle(true);
    // somebody else takes the old name
    s.req(Some(1), "register", json!({"username": "rkalice", "password": "pw-B-2"}));
    s.req(Some(1), "login", json!({"username": "rkalice", "password": "pw-B-2"}));
    s.settle(true);
    s.final_phase = true;
    s.req(Some(0), "list", json!({}));
    for name in ["K1", "K2", "K3"] {
        s.req(Some(0), "get", json!({"name": name}));
        s.req(Some(1), "get", json!({"name": name}));
    }
    s.req(Some(1), "list", json!({}));
    s.settle(true);
    s.final_phase = false;
}

/// larger codes: composed frameworks of 9-13 statements (independent blocks of 1-5 statements, interleaved) submitted under both
/// parsing strategies and solved with every strategy; TLC judges the stored answers and pictures block-wise (AdfCompose)
fn big_codes(rng: &mut StdRng, s: &mut Session, count: usize) {
    s.jars = vec![None; 3];
    s.me = vec!["-".to_string(); 3];
    s.ctrl.cmd(json!({"cmd": "reset"}));
    s.scen = "big-codes".into();
    s.seq = 0;
    s.expected_updates = 0;
    s.out.push(json!({"kind": "reset", "id": s.scen, "principals": 1}));
    s.req(Some(0), "register", json!({"username": "bigcodes", "password": "secret-big"}));
    s.settle(true);
    s.req(Some(0), "login", json!({"username": "bigcodes", "password": "secret-big"}));
    s.settle(true);
    let mut made = 0;
    let mut tries = 0;
    while made < count && tries < 200 {
        tries += 1;
        let (case, blocks, observers) = composed_adf(rng, format!("sb{}", tries), 9, 13);
        if !observers.is_empty() || blocks.iter().any(|b| b.len() > 4) {
            continue; // the validator finds the blocks itself as connected components; keep them small and observer-free
        }
        let n = case.asts.len();
        // few models only (every model comes with a picture of the whole diagram)
        let text0 = case.text();
        let parser = adf_bdd::parser::AdfParser::default();
        if parser.parse()(&text0).is_err() { continue; }
        let mut adf = adf_bdd::adf::Adf::from_parser(&parser);
        if adf.complete().count() > 40 { continue; }
        let labels: Vec<String> = (0..n).map(|i| format!("p1k{}s{}", 70 + made, i)).collect();
        let facts = if made % 2 == 0 { canonical_facts(n) } else { shuffled_facts(rng, n) };
        let code = render(&labels, &case.asts, &facts, &plain_layout());
        if code.len() > 1400 { continue; }
        let name = format!("BIG{}", made);
        s.req(Some(0), "add", json!({"name": name, "parsing": if made % 2 == 0 { "Naive" } else { "Hybrid" }, "class": "good", "code": code}));
        s.settle(true);
        s.req(Some(0), "get", json!({"name": name}));
        for st in ["Ground", "Complete", "Stable", "StableCountingA", "StableCountingB", "StableNogood"] {
            s.req(Some(0), "solve", json!({"name": name, "strategy": st}));
            s.settle(true);
        }
        s.req(Some(0), "get", json!({"name": name}));
        made += 1;
    }
    s.final_phase = true;
    s.req(Some(0), "list", json!({}));
    s.settle(true);
    s.final_phase = false;
}

/// three-valued answers whose pictures contain nodes the stored diagram did not have: a constant statement LATE in the variable
/// order decides part of an earlier statement's condition, the residual condition is a fresh node (Ground / Complete, both parsings)
fn residual_pictures(rng: &mut StdRng, s: &mut Session) {
    s.jars = vec![None; 3];
    s.me = vec!["-".to_string(); 3];
    s.ctrl.cmd(json!({"cmd": "reset"}));
    s.scen = "residual-pictures".into();
    s.seq = 0;
    s.expected_updates = 0;
    s.out.push(json!({"kind": "reset", "id": s.scen, "principals": 1}));
    s.req(Some(0), "register", json!({"username": "residual", "password": "secret-res"}));
    s.settle(true);
    s.req(Some(0), "login", json!({"username": "residual", "password": "secret-res"}));
    s.settle(true);
    let mut codes: Vec<String> = vec![
        "s(p1k80s0).s(p1k80s1).ac(p1k80s0,and(p1k80s0,p1k80s1)).ac(p1k80s1,c(v)).".into(),
        "s(p1k81s0).s(p1k81s1).s(p1k81s2).ac(p1k81s0,and(p1k81s0,xor(p1k81s1,p1k81s2))).ac(p1k81s1,p1k81s1).ac(p1k81s2,c(v)).".into(),
    ];
    for k in 0..4 {
        // u0 .. u_{m-1} stay undecided (each mentions itself), the facts come last in the order
        let m = rng.gen_range(1..=2usize);
        let nf = rng.gen_range(1..=2usize);
        let n = m + nf;
        let l = |i: usize| format!("p1k{}s{}", 82 + k, i);
        let mut code = String::new();
        for i in 0..n { code.push_str(&format!("s({}).", l(i))); }
        for i in 0..m {
            let f = l(m + rng.gen_range(0..nf));
            let o = l(rng.gen_range(0..m));
            let inner = match rng.gen_range(0..3) { 0 => format!("xor({},{})", o, f), 1 => format!("or(neg({}),and({},{}))", f, o, l(i)), _ => format!("iff({},{})", f, o) };
            code.push_str(&format!("ac({},{}({},{})).", l(i), ["and", "or", "xor"][rng.gen_range(0..3)], l(i), inner));
        }
        for i in m..n { code.push_str(&format!("ac({},c({})).", l(i), if rng.gen_bool(0.5) { "v" } else { "f" })); }
        codes.push(code);
    }
    for (i, code) in codes.iter().enumerate() {
        for parsing in ["Hybrid", "Naive"] {
            let name = format!("RES{}{}", i, &parsing[..1]);
            s.req(Some(0), "add", json!({"name": name, "parsing": parsing, "class": "good", "code": code}));
            s.settle(true);
            for st in ["Ground", "Complete"] {
                s.req(Some(0), "solve", json!({"name": name, "strategy": st}));
                s.settle(true);
            }
            s.req(Some(0), "get", json!({"name": name}));
        }
    }
    s.final_phase = true;
    s.req(Some(0), "list", json!({}));
    s.settle(true);
    s.final_phase = false;
}

/// two users own a problem with the SAME name; one of them runs a slow task; what does the other one see meanwhile?
fn slow_task_scenario(s: &mut Session) {
    s.jars = vec![None; 3];
    s.me = vec!["-".to_string(); 3];
    s.ctrl.cmd(json!({"cmd": "reset"}));
    s.scen = "slow-task".into();
    s.seq = 0;
    s.expected_updates = 0;
    s.out.push(json!({"kind": "reset", "id": s.scen, "principals": 2}));
    for (p, n, pw) in [(0usize, "stalice", "pw-A-slow"), (1usize, "stbob", "pw-B-slow")] {
        s.req(Some(p), "register", json!({"username": n, "password": pw}));
        s.req(Some(p), "login", json!({"username": n, "password": pw}));
    }
    // 15 self-supporting statements: 2^15 stable candidates keep the solve task busy for a few seconds in a debug build
    let k = 15;
    let mut slow = String::new();
    for i in 0..k { slow.push_str(&format!("s(p1k1s{}).", i)); }
    for i in 0..k { slow.push_str(&format!("ac(p1k1s{},p1k1s{}).", i, i)); }
    s.req(Some(0), "add", json!({"name": "SAME", "parsing": "Naive", "class": "good", "code": slow}));
    s.req(Some(1), "add", json!({"name": "SAME", "parsing": "Naive", "class": "good", "code": "s(p2k1s0).ac(p2k1s0,c(v))."}));
    s.settle(true);
    s.req(Some(0), "solve", json!({"name": "SAME", "strategy": "Stable"}));
    // a quick solve of the same problem while the slow one is still running: both answers must be there in the end
    s.req(Some(0), "solve", json!({"name": "SAME", "strategy": "Ground"}));
    for _ in 0..3 {
        s.req(Some(1), "get", json!({"name": "SAME"}));
        s.req(Some(1), "list", json!({}));
        std::thread::sleep(Duration::from_millis(150));
    }
    s.req(Some(0), "get", json!({"name": "SAME"}));
    s.settle(true);
    s.final_phase = true;
    s.req(Some(1), "get", json!({"name": "SAME"}));
    s.req(Some(0), "get", json!({"name": "SAME"}));
    s.settle(true);
    s.final_phase = false;
}

pub fn main(args: &[String]) {
    let mut tier = "quick".to_string();
    let mut out = String::new();
    let mut stub = String::new();
    let mut server = String::new();
    let mut work = "/tmp".to_string();
    let mut i = 0;
    while i < args.len() {
        match args[i].as_str() {
            "--tier" => { tier = args[i + 1].clone(); i += 1 }
            "--out" => { out = args[i + 1].clone(); i += 1 }
            "--stub" => { stub = args[i + 1].clone(); i += 1 }
            "--server" => { server = args[i + 1].clone(); i += 1 }
            "--work" => { work = args[i + 1].clone(); i += 1 }
            _ => {}
        }
        i += 1;
    }
    let procs = match start(&stub, &server, &work) {
        Ok(p) => p,
        Err(e) => {
            eprintln!("cannot start the service: {}", e);
            std::process::exit(3);
        }
    };
    let mut rng = StdRng::seed_from_u64(env_seed() ^ 0x5e2_0e16);
    let mut s = Session { me: vec!["-".to_string(); 3], final_phase: false, ctrl: Ctrl::connect(), jars: vec![None; 3], out: Vec::new(), seq: 0, scen: String::new(), expected_updates: 0, person: Vec::new() };
    happy_path(&mut s);
    let n = if tier == "thorough" { 120 } else { 28 };
    for k in 0..n {
        random_scenario(&mut rng, &mut s, k);
    }
    big_codes(&mut rng, &mut s, if tier == "thorough" { 10 } else { 3 });
    residual_pictures(&mut rng, &mut s);
    slow_task_scenario(&mut s);
    race_rename_window(&mut s);
    race_stale_write(&mut s);
    stale_session(&mut s, false);
    stale_session(&mut s, true);
    race_delete_window(&mut s);
    race_delete_second_command(&mut s);
    race_rename_same_target(&mut s);
    rename_keeps_problems(&mut s);
    let mut f = std::io::BufWriter::new(std::fs::File::create(&out).expect("cannot create out file"));
    for r in &s.out {
        writeln!(f, "{}", r).unwrap();
    }
    f.flush().unwrap();
    eprintln!("server: {} scenarios, {} records", n + 12, s.out.len());
    drop(procs);
    std::process::exit(0);
}
