//! C11: call histories on one Adf object vs. fresh objects, determinism of repeated histories, memo audit afterwards.
//! Also C14 at the Adf level: serde round trip / rebuild from the plain node list at a random point of the history.
use crate::bddops::*;
use crate::gen::*;
use crate::sem::{build_adf, Backend};
use crate::util::*;
use adf_bdd::adf::heuristics::Heuristic;
use adf_bdd::adf::Adf;
use adf_bdd::datatypes::{BddNode, Term, Var};
use adf_bdd::obdd::Bdd;
use adf_bdd::parser::AdfParser;
use rand::rngs::StdRng;
use rand::{Rng, SeedableRng};
use serde_json::{json, Value};
use std::io::Write;

#[derive(Clone, Debug)]
pub struct HCall {
    pub c: &'static str,
    pub h: &'static str,
    pub seed: u64,
    pub ops: Vec<(u8, usize, usize, usize, bool)>, // extra bdd ops: (kind, a, b, var, val) with a, b reduced modulo table size
}

fn seed32(seed: u64) -> [u8; 32] {
    let mut s = [0u8; 32];
    for (i, b) in s.iter_mut().enumerate() {
        *b = ((seed >> ((i % 8) * 8)) & 0xff) as u8 ^ (i as u8).wrapping_mul(17);
    }
    s
}

pub fn raw(vs: &[Vec<Term>]) -> Vec<Vec<usize>> {
    vs.iter().map(|v| v.iter().map(|t| t.value()).collect()).collect()
}

/// perform one call on `adf`; the answer is a list of integer vectors (raw handles or counts)
pub fn do_call(adf: &mut Adf, text: &str, c: &HCall) -> Vec<Vec<usize>> {
    match c.c {
        "grounded" => raw(&[adf.grounded()]),
        "complete" => raw(&adf.complete().collect::<Vec<_>>()),
        "stable" => raw(&adf.stable().collect::<Vec<_>>()),
        "prefilter" => raw(&adf.stable_with_prefilter().collect::<Vec<_>>()),
        "count_a" => raw(&adf.stable_count_optimisation_heu_a().collect::<Vec<_>>()),
        "count_b" => raw(&adf.stable_count_optimisation_heu_b().collect::<Vec<_>>()),
        "rew" => {
            let parser = AdfParser::default();
            parser.parse()(text).unwrap();
            let bio = adf_bdd::adfbiodivine::Adf::from_parser(&parser);
            raw(&adf.stable_bdd_representation(&bio))
        }
        "ng" | "twoval" => {
            let heu = match c.h {
                "Simple" => Heuristic::Simple,
                "MinModMinPathsMaxVarImp" => Heuristic::MinModMinPathsMaxVarImp,
                "MinModMaxVarImpMinPaths" => Heuristic::MinModMaxVarImpMinPaths,
                _ => Heuristic::Rand,
            };
            if c.h == "Rand" {
                adf.seed(seed32(c.seed));
            }
            if c.c == "ng" {
                raw(&adf.stable_nogood(heu).collect::<Vec<_>>())
            } else {
                let (s, r) = crossbeam_channel::unbounded();
                adf.two_val_nogood_channel(heu, s);
                raw(&r.try_iter().collect::<Vec<_>>())
            }
        }
        "formulacounts" => adf.formulacounts(false).iter().map(|m| vec![m.cmodels, m.models]).collect(),
        "facet" => {
            let g = adf.ac.clone();
            adf.facet_count(&g).iter().map(|(m, f)| vec![m.cmodels, m.models, f.0, f.1]).collect()
        }
        "bddop" => {
            for (k, a, b, v, val) in &c.ops {
                let n = adf.bdd.nodes.len();
                let (a, b) = (Term(a % n), Term(b % n));
                let nv = adf.ac.len();
                match k % 4 {
                    0 => {
                        adf.bdd.and(a, b);
                    }
                    1 => {
                        adf.bdd.or(a, b);
                    }
                    2 => {
                        adf.bdd.xor(a, b);
                    }
                    _ => {
                        adf.bdd.restrict(a, Var(v % nv), *val);
                    }
                }
            }
            vec![]
        }
        // seeding is a call of its own, and a Rand search may come any number of calls later: nothing in between may touch the generator
        "seed" => {
            adf.seed(seed32(c.seed));
            vec![]
        }
        "ngr" => raw(&adf.stable_nogood(Heuristic::Rand).collect::<Vec<_>>()),
        // the documented repair step is a public call like any other: on a live object it must change nothing
        "repair" => {
            adf.fix_import();
            vec![]
        }
        other => panic!("unknown call {}", other),
    }
}

pub fn rand_call(rng: &mut StdRng) -> HCall {
    let kinds = ["grounded", "complete", "stable", "prefilter", "count_a", "count_b", "rew", "ng", "ng", "ng", "twoval", "formulacounts", "facet", "bddop", "bddop", "repair", "seed", "ngr", "ngr"];
    let c = kinds[rng.gen_range(0..kinds.len())];
    let h = if c == "ng" || c == "twoval" {
        ["Simple", "MinModMinPathsMaxVarImp", "MinModMaxVarImpMinPaths", "Rand"][rng.gen_range(0..4)]
    } else {
        "-"
    };
    let ops = if c == "bddop" {
        (0..rng.gen_range(1..6)).map(|_| (rng.gen::<u8>(), rng.gen_range(0..1000), rng.gen_range(0..1000), rng.gen_range(0..8), rng.gen_bool(0.5))).collect()
    } else {
        vec![]
    };
    HCall { c, h, seed: rng.gen(), ops }
}

fn call_json(c: &HCall) -> Value {
    json!({"c": c.c, "h": c.h, "seed": c.seed.to_string(),
           "ops": c.ops.iter().map(|(k, a, b, v, val)| json!([k, a, b, v, val])).collect::<Vec<_>>()})
}

fn out_json(o: &Outcome<Vec<Vec<usize>>>) -> (Value, &'static str) {
    match o {
        Outcome::Ok(v) => (json!(v), "ok"),
        other => (json!([]), other.status()),
    }
}

/// the web service's plain representation: decimal strings and a node list, rebuilt through Bdd::from(Vec<BddNode>)
pub fn rebuild_like_server(adf: &Adf) -> Adf {
    let nodes_s: Vec<(String, String, String)> =
        adf.bdd.nodes.iter().map(|n| (n.var().0.to_string(), n.lo().0.to_string(), n.hi().0.to_string())).collect();
    let ac_s: Vec<String> = adf.ac.iter().map(|t| t.0.to_string()).collect();
    let nodes: Vec<BddNode> = nodes_s
        .iter()
        .map(|(v, l, h)| BddNode::new(Var(v.parse().unwrap()), Term(l.parse().unwrap()), Term(h.parse().unwrap())))
        .collect();
    let bdd = Bdd::from(nodes);
    let names = adf.ordering.names().read().unwrap().clone();
    let mapping = adf.ordering.mappings().read().unwrap().clone();
    let vc = adf_bdd::datatypes::adf::VarContainer::from_parser(
        std::sync::Arc::new(std::sync::RwLock::new(names)),
        std::sync::Arc::new(std::sync::RwLock::new(mapping)),
    );
    Adf::from((vc, bdd, ac_s.iter().map(|t| Term(t.parse().unwrap())).collect()))
}

pub fn serde_like_cli(adf: &Adf) -> Adf {
    let s = serde_json::to_string(adf).unwrap();
    let mut r: Adf = serde_json::from_str(&s).unwrap();
    r.fix_import();
    r
}

pub fn one_history(rng: &mut StdRng, id: String, out: &mut Vec<Value>, persist: bool) {
    let n = rng.gen_range(2..=5);
    let case = rand_adf(rng, n, id.clone());
    // a third of the histories stay within the call kinds whose store-level transcription exists (grounded, complete, stable,
    // extra formulas) on a natively compiled object: the model then follows them handle by handle (Trace_Bdd, drift only)
    let followable = !persist && rng.gen_range(0..3) == 0;
    let backend = if followable { Backend::Native } else { [Backend::Native, Backend::Hybrid, Backend::HybridNoPre][rng.gen_range(0..3)] };
    let len = rng.gen_range(2..=10);
    let calls: Vec<HCall> = (0..len)
        .map(|_| loop {
            let c = rand_call(rng);
            if !followable || ["grounded", "complete", "stable", "prefilter", "bddop"].contains(&c.c) {
                break c;
            }
        })
        .collect();
    // an unseeded Rand search is entropy-driven: "ngr" is only meaningful after a "seed" call on the same object, and never on a
    // persisted copy (the generator is not part of the exported state)
    let mut calls = calls;
    if persist {
        calls.retain(|c| c.c != "ngr" && c.c != "seed");
        if calls.is_empty() {
            calls.push(HCall { c: "grounded", h: "-", seed: 0, ops: vec![] });
        }
    } else if let Some(first_ngr) = calls.iter().position(|c| c.c == "ngr") {
        if !calls[..first_ngr].iter().any(|c| c.c == "seed") {
            calls.insert(0, HCall { c: "seed", h: "-", seed: rng.gen(), ops: vec![] });
        }
    }
    let len = calls.len();
    let persist_at = if persist { rng.gen_range(0..=len) } else { usize::MAX };
    let persist_how = if rng.gen_bool(0.5) { "serde" } else { "rebuild" };
    run_history(id, &case, backend, calls, persist, persist_at, persist_how, out);
}

/// the answers of one history on one fresh object, nothing else (cheap: used to pre-select histories worth a full record)
fn quick_answers(text: &str, backend: Backend, calls: &[HCall]) -> Vec<Vec<Vec<usize>>> {
    let parser = AdfParser::default();
    parser.parse()(text).unwrap();
    let mut adf = build_adf(&parser, backend);
    calls.iter().map(|c| do_call(&mut adf, text, c)).collect()
}

/// Determinism pre-filter (C11): many more ADFs than TLC could judge one by one run a fixed history twice on two fresh objects;
/// every history whose two runs differ (raw handles, order) - and a sample of the others - becomes a full record for TLC.
pub fn determinism_prefilter(rng: &mut StdRng, cases: usize, out: &mut Vec<Value>) {
    let mk = |c: &'static str, h: &'static str, seed: u64| HCall { c, h, seed, ops: vec![] };
    let mut differing = 0usize;
    let mut emitted = 0usize;
    for k in 0..cases {
        if give_up() {
            break;
        }
        let n = rng.gen_range(3..=5);
        let id = format!("d{}", k);
        let case = rand_adf(rng, n, id.clone());
        let text = case.text();
        let backend = [Backend::Native, Backend::Hybrid, Backend::HybridNoPre][rng.gen_range(0..3)];
        let seed: u64 = rng.gen();
        let calls = vec![mk("grounded", "-", 0), mk("complete", "-", 0), mk("ng", "MinModMinPathsMaxVarImp", 0), mk("ng", "MinModMaxVarImpMinPaths", 0),
                         mk("ng", "Rand", seed), mk("stable", "-", 0), mk("twoval", "MinModMinPathsMaxVarImp", 0), mk("ng", "Rand", seed), mk("count_a", "-", 0),
                         mk("seed", "-", seed), mk("ngr", "-", 0), mk("repair", "-", 0), mk("ngr", "-", 0)];
        breadcrumb(&json!({"kind": "history-prefilter", "id": id, "text": text, "src": backend.name()}));
        let (t1, c1) = (text.clone(), calls.clone());
        let r = guarded(60, move || {
            let a = quick_answers(&t1, backend, &c1);
            let b = quick_answers(&t1, backend, &c1);
            a == b
        });
        let same = matches!(r, Outcome::Ok(true));
        if !same {
            differing += 1;
        }
        if (!same && emitted < 25) || k % 2000 == 0 {
            emitted += 1;
            run_history(id, &case, backend, calls, false, usize::MAX, "serde", out);
        }
    }
    out.push(json!({"kind": "stat", "id": "determinism-prefilter", "cases": cases, "differing": differing, "emitted": emitted}));
}

#[allow(clippy::too_many_arguments)]
pub fn run_history(id: String, case: &AdfCase, backend: Backend, calls: Vec<HCall>, persist: bool, persist_at: usize, persist_how: &'static str, out: &mut Vec<Value>) {
    let n = case.asts.len();
    let text = case.text();
    crate::util::breadcrumb(&json!({"kind": "history", "id": id, "text": text, "src": backend.name(), "calls": calls.iter().map(call_json).collect::<Vec<_>>(),
                                    "persist_at": if persist { persist_at as i64 } else { -1 }, "persist_how": persist_how}));

    // run the whole history on one object; used twice (determinism) - everything inside one guarded closure
    let run_hist = |text: String, calls: Vec<HCall>, with_tables: bool| {
        guarded(60, move || {
            let parser = AdfParser::default();
            parser.parse()(&text).unwrap();
            let mut adf = build_adf(&parser, backend);
            let first = (nodes_json(&adf.bdd), dump_json(&adf.bdd), adf.ac.iter().map(|t| t.value()).collect::<Vec<_>>());
            let mut answers: Vec<(Value, &'static str)> = Vec::new();
            let mut persisted: Option<Value> = None;
            let mut copy: Option<Adf> = None;
            let mut copy_answers: Vec<(Value, &'static str)> = Vec::new();
            for (i, c) in calls.iter().enumerate() {
                if i == persist_at {
                    let cp = if persist_how == "serde" { serde_like_cli(&adf) } else { rebuild_like_server(&adf) };
                    persisted = Some(json!({"how": persist_how, "at": i, "orig_nodes": nodes_json(&adf.bdd), "copy_nodes": nodes_json(&cp.bdd),
                        "orig_ac": adf.ac.iter().map(|t| t.value()).collect::<Vec<_>>(), "copy_ac": cp.ac.iter().map(|t| t.value()).collect::<Vec<_>>(),
                        "copy_dump": dump_json(&cp.bdd)}));
                    copy = Some(cp);
                }
                let r = std::panic::catch_unwind(std::panic::AssertUnwindSafe(|| do_call(&mut adf, &text, c)));
                answers.push(match r {
                    Ok(v) => (json!(v), "ok"),
                    Err(_) => (json!([]), "panic"),
                });
                if let Some(cp) = copy.as_mut() {
                    let r = std::panic::catch_unwind(std::panic::AssertUnwindSafe(|| do_call(cp, &text, c)));
                    copy_answers.push(match r {
                        Ok(v) => (json!(v), "ok"),
                        Err(_) => (json!([]), "panic"),
                    });
                }
            }
            if persist_at == calls.len() {
                let cp = if persist_how == "serde" { serde_like_cli(&adf) } else { rebuild_like_server(&adf) };
                persisted = Some(json!({"how": persist_how, "at": persist_at, "orig_nodes": nodes_json(&adf.bdd), "copy_nodes": nodes_json(&cp.bdd),
                    "orig_ac": adf.ac.iter().map(|t| t.value()).collect::<Vec<_>>(), "copy_ac": cp.ac.iter().map(|t| t.value()).collect::<Vec<_>>(),
                    "copy_dump": dump_json(&cp.bdd)}));
                copy = Some(cp);
            }
            let copy_final = copy.as_ref().map(|cp| nodes_json(&cp.bdd));
            let last = if with_tables { Some((nodes_json(&adf.bdd), dump_json(&adf.bdd), adf.ac.iter().map(|t| t.value()).collect::<Vec<_>>())) } else { None };
            (first, answers, last, persisted, copy_answers, copy_final)
        })
    };
    let a = run_hist(text.clone(), calls.clone(), true);
    let b = run_hist(text.clone(), calls.clone(), false);
    // every call on a fresh object
    let mut fresh: Vec<(Value, &'static str)> = Vec::new();
    for c in &calls {
        let (t, c2) = (text.clone(), c.clone());
        let o = guarded(30, move || {
            let parser = AdfParser::default();
            parser.parse()(&t).unwrap();
            let mut adf = build_adf(&parser, backend);
            do_call(&mut adf, &t, &c2)
        });
        fresh.push(out_json(&o));
    }
    let asts: Vec<Value> = case.asts.iter().map(|x| x.to_json_idx()).collect();
    match (a, b) {
        (Outcome::Ok((first, aa, last, persisted, copy_answers, copy_final)), Outcome::Ok((_, bb, _, _, _, _))) => {
            out.push(json!({"kind": "reset", "id": id, "nv": n, "src": backend.name(), "text": text, "nodes": first.0, "dump": first.1, "feat": features_json()}));
            let calls_j: Vec<Value> = calls
                .iter()
                .enumerate()
                .map(|(i, c)| {
                    let mut j = call_json(c);
                    j["a"] = aa[i].0.clone();
                    j["a_st"] = json!(aa[i].1);
                    j["b"] = bb[i].0.clone();
                    j["b_st"] = json!(bb[i].1);
                    j["f"] = fresh[i].0.clone();
                    j["f_st"] = json!(fresh[i].1);
                    if i >= persist_at && i - persist_at.min(i) < copy_answers.len() {
                        j["cp"] = copy_answers[i - persist_at].0.clone();
                        j["cp_st"] = json!(copy_answers[i - persist_at].1);
                    } else {
                        j["cp"] = json!([]);
                        j["cp_st"] = json!("na");
                    }
                    j
                })
                .collect();
            let (ln, ld, lac) = last.unwrap();
            out.push(json!({"kind": "hist", "id": format!("{}!", id), "n": n, "nv": n, "asts": asts, "backend": backend.name(), "text": text,
                            "calls": calls_j, "final_ac": lac, "init_ac": first.2,
                            "persist": persisted.clone().unwrap_or(json!({"how": "none"})),
                            "copy_final": copy_final.unwrap_or(json!([])), "orig_final": ln.clone()}));
            out.push(json!({"kind": "opaque", "id": format!("{}#end", id), "call": "history", "nv": n, "nodes": ln, "dump": ld, "feat": features_json()}));
            if let Some(p) = persisted {
                // the copy's tables right after the import / rebuild are audited like any other store state
                out.push(json!({"kind": "persist", "id": format!("{}#persist", id), "how": p["how"], "nv": n, "orig_nodes": p["orig_nodes"],
                                "nodes": p["copy_nodes"], "dump": p["copy_dump"], "feat": features_json()}));
            }
        }
        (a, b) => {
            out.push(json!({"kind": "panic", "id": id, "text": text, "what": format!("history run: {} / {}", a.status(), b.status()),
                            "calls": calls.iter().map(call_json).collect::<Vec<_>>()}));
        }
    }
}

/// Deep frameworks (40-100 statements): constant conditions plus one long chain (and / or / xor over all other statements), or an
/// implication ladder that needs n propagation rounds - diagrams as deep as the framework is long, across the 63/64/65 boundary.
/// One object answers a few calls; with `persist` it is copied through a round trip first and the copy answers the same calls.
/// Judged by TLC: the copy is the original (C14); where the framework decomposes (AdfCompose) the answers are the definition's (C11).
pub fn deep_history(rng: &mut StdRng, id: String, out: &mut Vec<Value>, persist: bool) {
    let n = [40usize, 63, 64, 65, 66, 70, 100][rng.gen_range(0..7)];
    let family = rng.gen_range(0..4);
    let goal = [0, n / 2, n - 1][rng.gen_range(0..3)];
    let mut asts: Vec<Ast> = Vec::new();
    for i in 0..n {
        asts.push(match family {
            0 => Ast::Top,
            1 => if rng.gen_range(0..n) == 0 { Ast::Top } else { Ast::Bot },
            2 => if rng.gen_bool(0.5) { Ast::Top } else { Ast::Bot },
            _ => if i == 0 { Ast::Top } else if rng.gen_bool(0.8) { Ast::Atom(i - 1) } else { not(Ast::Atom(i - 1)) },
        });
    }
    if family < 3 {
        let others: Vec<usize> = (0..n).filter(|i| *i != goal).collect();
        let mut f = Ast::Atom(others[others.len() - 1]);
        for i in others.iter().rev().skip(1) {
            f = match family { 0 => and(Ast::Atom(*i), f), 1 => or(Ast::Atom(*i), f), _ => xor(Ast::Atom(*i), f) };
        }
        asts[goal] = f;
    }
    let case = AdfCase { id: id.clone(), labels: (0..n).map(|i| format!("x{}", i)).collect(), asts };
    let text = case.text();
    let backend = [Backend::Native, Backend::HybridNoPre, Backend::Native, Backend::Hybrid][rng.gen_range(0..4)];
    let how: &'static str = if rng.gen_bool(0.5) { "serde" } else { "rebuild" };
    let persist_at = if persist { rng.gen_range(0..2usize) } else { usize::MAX };
    let calls: Vec<HCall> = ["grounded", "complete", "stable", "ng", "twoval"].iter()
        .map(|c| HCall { c, h: if *c == "ng" || *c == "twoval" { "Simple" } else { "-" }, seed: 0, ops: vec![] }).collect();
    breadcrumb(&json!({"kind": "history-deep", "id": id, "text": text, "src": backend.name(), "persist_at": persist_at as i64, "how": how}));
    let (t2, c2) = (text.clone(), calls.clone());
    let r = guarded(120, move || {
        let parser = AdfParser::default();
        parser.parse()(&t2).unwrap();
        let mut adf = build_adf(&parser, backend);
        let mut copy: Option<Adf> = None;
        let mut persisted = json!({"how": "none"});
        let mut rows: Vec<Value> = Vec::new();
        for (i, c) in c2.iter().enumerate() {
            if i == persist_at {
                let orig_nodes = nodes_json(&adf.bdd);
                let orig_ac: Vec<usize> = adf.ac.iter().map(|t| t.value()).collect();
                match std::panic::catch_unwind(std::panic::AssertUnwindSafe(|| if how == "serde" { serde_like_cli(&adf) } else { rebuild_like_server(&adf) })) {
                    Ok(cp) => {
                        persisted = json!({"how": how, "at": i, "st": "ok", "orig_nodes": orig_nodes, "copy_nodes": nodes_json(&cp.bdd), "orig_ac": orig_ac,
                                           "copy_ac": cp.ac.iter().map(|t| t.value()).collect::<Vec<_>>()});
                        copy = Some(cp);
                    }
                    Err(_) => persisted = json!({"how": how, "at": i, "st": "panic", "orig_nodes": orig_nodes, "copy_nodes": [], "orig_ac": orig_ac, "copy_ac": []}),
                }
            }
            let a = std::panic::catch_unwind(std::panic::AssertUnwindSafe(|| do_call(&mut adf, &t2, c)));
            let (av, ast) = match a { Ok(v) => (json!(v), "ok"), Err(_) => (json!([]), "panic") };
            let (cv, cst) = match copy.as_mut() {
                Some(cp) => match std::panic::catch_unwind(std::panic::AssertUnwindSafe(|| do_call(cp, &t2, c))) { Ok(v) => (json!(v), "ok"), Err(_) => (json!([]), "panic") },
                None => (json!([]), "na"),
            };
            rows.push(json!({"c": c.c, "h": c.h, "a": av, "a_st": ast, "cp": cv, "cp_st": cst}));
        }
        (rows, persisted, nodes_json(&adf.bdd), copy.as_ref().map(|c| nodes_json(&c.bdd)).unwrap_or(json!([])))
    });
    match r {
        Outcome::Ok((rows, persisted, orig_final, copy_final)) => out.push(json!({"kind": "histdeep", "id": id, "n": n, "text": text, "backend": backend.name(),
            "family": family, "asts": case.asts.iter().map(|a| a.to_json_idx()).collect::<Vec<_>>(), "persist": persisted, "calls": rows,
            "orig_final": orig_final, "copy_final": copy_final})),
        o => out.push(json!({"kind": "panic", "id": id, "text": text, "prop": if persist { "C14" } else { "C11" }, "what": format!("deep history: {}", o.status())})),
    }
}

pub fn main(args: &[String]) {
    let mut tier = "quick".to_string();
    let mut out = String::new();
    let mut persist = false;
    let mut i = 0;
    while i < args.len() {
        match args[i].as_str() {
            "--tier" => {
                tier = args[i + 1].clone();
                i += 1
            }
            "--out" => {
                out = args[i + 1].clone();
                i += 1
            }
            "--persist" => persist = true,
            _ => {}
        }
        i += 1;
    }
    quiet_panics();
    let mut rng = StdRng::seed_from_u64(env_seed() ^ 0x4157_0011);
    let n = if tier == "thorough" { 3000 } else if tier == "feat" { 120 } else { 400 };
    let mut recs = Vec::new();
    for k in 0..n {
        if give_up() {
            break;
        }
        one_history(&mut rng, format!("h{}", k), &mut recs, persist);
    }
    for k in 0..(if tier == "thorough" { 120 } else if tier == "feat" { 4 } else { 24 }) {
        deep_history(&mut rng, format!("D{}", k), &mut recs, persist);
    }
    if !persist && tier != "feat" {
        determinism_prefilter(&mut rng, if tier == "thorough" { 120_000 } else { 20_000 }, &mut recs);
    }
    let mut f = std::io::BufWriter::new(std::fs::File::create(&out).expect("cannot create out file"));
    for r in &recs {
        writeln!(f, "{}", r).unwrap();
    }
    f.flush().unwrap();
    eprintln!("hist: {} histories, {} records, {} timeouts", n, recs.len(), TIMEOUTS.load(std::sync::atomic::Ordering::SeqCst));
    std::process::exit(0);
}
