//! C06 C07 C11 C13 C14 (store level): random operation sequences on real `Bdd` objects; after every operation the
//! complete node table and (through hook H1) the memo tables are logged.  TLC judges everything.
use crate::gen::*;
use crate::util::*;
use adf_bdd::adf::Adf;
use adf_bdd::adfbiodivine::Adf as BdAdf;
use adf_bdd::datatypes::{BddNode, Term, Var};
use adf_bdd::obdd::Bdd;
use adf_bdd::parser::AdfParser;
use rand::rngs::StdRng;
use rand::{Rng, SeedableRng};
use serde_json::{json, Value};
use std::io::Write;

pub const VAR_BOT: u64 = 1_000_000;
pub const VAR_TOP: u64 = 1_000_001;

pub fn var_json(v: Var) -> Value {
    if v == Var::BOT {
        json!(VAR_BOT)
    } else if v == Var::TOP {
        json!(VAR_TOP)
    } else {
        json!(v.value())
    }
}

pub fn node_json(n: &BddNode) -> Value {
    json!([var_json(n.var()), n.lo().value(), n.hi().value()])
}

pub fn nodes_json(bdd: &Bdd) -> Value {
    Value::Array(bdd.nodes.iter().map(node_json).collect())
}

pub fn features_json() -> Value {
    json!({
        "adhoccounting": cfg!(feature = "adhoccounting"),
        "adhoccountmodels": cfg!(feature = "adhoccountmodels"),
        "variablelist": cfg!(feature = "variablelist"),
        "frontend": cfg!(feature = "frontend"),
    })
}

pub fn dump_json(bdd: &Bdd) -> Value {
    let d = bdd.verif_dump();
    json!({
        "uniq": d.uniq.iter().map(|(n, t)| json!([node_json(n), t.value()])).collect::<Vec<_>>(),
        "ite": d.ite.iter().map(|((i, t, e), r)| json!([i.value(), t.value(), e.value(), r.value()])).collect::<Vec<_>>(),
        "rc": d.restrict.iter().map(|((t, v, b), r)| json!([t.value(), v.value(), b, r.value()])).collect::<Vec<_>>(),
        "cnt": d.count.iter().map(|(t, (m, p, dp))| json!([t.value(), m.0, m.1, p.0, p.1, dp])).collect::<Vec<_>>(),
        "deps": d.deps.iter().map(|s| Value::Array(s.iter().map(|v| var_json(*v)).collect())).collect::<Vec<_>>(),
    })
}

pub struct Rec {
    pub out: Vec<Value>,
    pub seq: String,
    pub step: usize,
}

impl Rec {
    fn push_op(&mut self, bdd: &Bdd, nv: usize, op: &str, a: usize, b: usize, v: usize, val: bool, r: usize, last: bool) {
        self.step += 1;
        self.out.push(json!({"kind": "op", "id": format!("{}#{}", self.seq, self.step), "op": op, "a": a, "b": b, "v": v, "val": val,
                             "r": r, "nv": nv, "last": last, "nodes": nodes_json(bdd), "dump": dump_json(bdd), "feat": features_json()}));
    }
}

fn rand_handle(rng: &mut StdRng, bdd: &Bdd) -> Term {
    let n = bdd.nodes.len();
    // bias towards recent handles
    if rng.gen_bool(0.5) && n > 6 {
        Term(rng.gen_range(n - 5..n))
    } else {
        Term(rng.gen_range(0..n))
    }
}

/// one random basic operation on `bdd`, recorded
pub fn rand_op(rng: &mut StdRng, bdd: &mut Bdd, nv: usize, rec: &mut Rec, last: bool) {
    let k = rng.gen_range(0..100);
    let a = rand_handle(rng, bdd);
    let b = rand_handle(rng, bdd);
    if k < 8 {
        let v = rng.gen_range(0..nv);
        let r = bdd.variable(Var(v));
        rec.push_op(bdd, nv, "var", 0, 0, v, false, r.value(), last);
    } else if k < 18 {
        let r = bdd.not(a);
        rec.push_op(bdd, nv, "not", a.value(), 0, 0, false, r.value(), last);
    } else if k < 75 {
        let (name, r) = match k % 5 {
            0 => ("and", bdd.and(a, b)),
            1 => ("or", bdd.or(a, b)),
            2 => ("imp", bdd.imp(a, b)),
            3 => ("iff", bdd.iff(a, b)),
            _ => ("xor", bdd.xor(a, b)),
        };
        rec.push_op(bdd, nv, name, a.value(), b.value(), 0, false, r.value(), last);
    } else {
        let v = rng.gen_range(0..nv);
        let val = rng.gen_bool(0.5);
        let r = bdd.restrict(a, Var(v), val);
        rec.push_op(bdd, nv, "restrict", a.value(), 0, v, val, r.value(), last);
    }
}

/// all diagram queries of C13 on handle h
pub fn query_json(rng: &mut StdRng, bdd: &Bdd, nv: usize, h: Term, id: String) -> Value {
    // query order varies: some answers (depth without ad-hoc counting) may depend on what was memoised before
    let depth_first = rng.gen_bool(0.5);
    let depth0 = if depth_first { Some(bdd.max_depth(h)) } else { None };
    let (p_naive, m_naive) = (bdd.paths(h, false), bdd.models(h, false));
    let depth1 = if rng.gen_bool(0.5) { Some(bdd.max_depth(h)) } else { None };
    let p_memo = bdd.paths(h, true);
    let m_memo = bdd.models(h, true);
    let depth = depth0.or(depth1).unwrap_or_else(|| bdd.max_depth(h));
    let mut deps: Vec<usize> = bdd.var_dependencies(h).iter().map(|v| v.value()).collect();
    deps.sort();
    // impact measures on a random term list of length nv (position = variable index)
    let termlist: Vec<Term> = (0..nv).map(|_| rand_handle(rng, bdd)).collect();
    let var = rng.gen_range(0..nv);
    let passive = bdd.passive_var_impact(Var(var), &termlist);
    let active = bdd.active_var_impact(Var(var), &termlist);
    let mut cubes = Vec::new();
    for goal in [true, false] {
        for gv in 0..nv {
            let c = bdd.interpretations(h, goal, Var(gv), &[], &[]);
            cubes.push(json!({"goal": goal, "gv": gv,
                "cubes": c.iter().map(|(n, p)| json!([n.iter().map(|v| v.value()).collect::<Vec<_>>(), p.iter().map(|v| v.value()).collect::<Vec<_>>()])).collect::<Vec<_>>()}));
        }
    }
    json!({"kind": "query", "id": id, "nv": nv, "h": h.value(), "nodes": nodes_json(bdd), "feat": features_json(),
           "paths_memo": [p_memo.cmodels, p_memo.models], "paths_naive": [p_naive.cmodels, p_naive.models],
           "models_naive": [m_naive.cmodels, m_naive.models], "models_memo": [m_memo.cmodels, m_memo.models],
           "more_models_paths": p_memo.more_models(), "more_models_models": m_naive.more_models(),
           "depth": depth, "deps": deps,
           "termlist": termlist.iter().map(|t| t.value()).collect::<Vec<_>>(), "ivar": var, "passive": passive, "active": active,
           "cubes": cubes})
}

fn serde_roundtrip(bdd: &Bdd) -> Bdd {
    let s = serde_json::to_string(bdd).unwrap();
    let mut b: Bdd = serde_json::from_str(&s).unwrap();
    b.fix_import();
    b
}

/// sequences on a fresh store
fn seq_fresh(rng: &mut StdRng, id: String, len: usize, out: &mut Vec<Value>, persist: bool) {
    let nv = rng.gen_range(2..=5);
    let mut bdd = Bdd::new();
    out.push(json!({"kind": "reset", "id": id, "nv": nv, "src": "fresh", "nodes": nodes_json(&bdd), "dump": dump_json(&bdd), "feat": features_json()}));
    let mut rec = Rec { out: Vec::new(), seq: id.clone(), step: 0 };
    // make the variables first most of the time
    if rng.gen_bool(0.8) {
        for v in 0..nv {
            let r = bdd.variable(Var(v));
            rec.push_op(&bdd, nv, "var", 0, 0, v, false, r.value(), false);
        }
    }
    let imp_at = if persist { rng.gen_range(1..len) } else { usize::MAX };
    for i in 0..len {
        if i == imp_at {
            // persistence in the middle of a life: the copy must continue exactly like the original
            let kind = if rng.gen_bool(0.5) { "import" } else { "rebuild" };
            let copy = if kind == "import" { serde_roundtrip(&bdd) } else { Bdd::from(bdd.nodes.clone()) };
            rec.step += 1;
            rec.out.push(json!({"kind": "persist", "id": format!("{}#{}", id, rec.step), "how": kind, "nv": nv,
                                "orig_nodes": nodes_json(&bdd), "nodes": nodes_json(&copy), "dump": dump_json(&copy), "feat": features_json()}));
            bdd = copy;
        }
        if rng.gen_range(0..100) < 4 {
            // the documented repair step, on a live store: a public call like any other, it must change nothing
            bdd.fix_import();
            rec.step += 1;
            rec.out.push(json!({"kind": "opaque", "id": format!("{}#{}", id, rec.step), "call": "repair", "nv": nv,
                                "nodes": nodes_json(&bdd), "dump": dump_json(&bdd), "feat": features_json()}));
        }
        rand_op(rng, &mut bdd, nv, &mut rec, i + 1 == len);
    }
    out.append(&mut rec.out);
    let n = bdd.nodes.len();
    let picks: Vec<usize> = if n <= 12 { (0..n).collect() } else { (0..12).map(|_| rng.gen_range(0..n)).collect() };
    for (k, h) in picks.into_iter().enumerate() {
        out.push(query_json(rng, &bdd, nv, Term(h), format!("{}?{}.{}", id, h, k)));
    }
}

// ------------------------------------------------------------------------------------------------ large stores
/// One long sequence over 7-10 variables (tables of 60-250 nodes, diagrams up to the full depth): one record with the final table,
/// the operation list (result handle and table length after each), two intermediate tables (prefix check), the memo tables and the
/// C13 queries of a few handles.  Judged by TLC with the integer-assignment operators of BigBdd.
fn seq_big(rng: &mut StdRng, id: String, out: &mut Vec<Value>) {
    let nv = rng.gen_range(7..=10usize);
    let mut bdd = Bdd::new();
    let mut ops: Vec<Value> = Vec::new();
    for v in 0..nv {
        let r = bdd.variable(Var(v));
        ops.push(json!({"op": "var", "a": 0, "b": 0, "v": v, "val": false, "r": r.value(), "len": bdd.nodes.len()}));
    }
    let nops = rng.gen_range(30..=70);
    let cp_at = [nops / 3, 2 * nops / 3];
    let mut cps: Vec<Value> = Vec::new();
    for i in 0..nops {
        if bdd.nodes.len() > 240 {
            break;
        }
        if cp_at.contains(&i) {
            cps.push(json!({"at": ops.len(), "nodes": nodes_json(&bdd)}));
        }
        let k = rng.gen_range(0..100);
        let n = bdd.nodes.len();
        // mix of recent (deep) handles, literals and anything
        let mut pick = |rng: &mut StdRng| -> Term {
            match rng.gen_range(0..10) {
                0..=4 => Term(rng.gen_range(n.saturating_sub(8)..n)),
                5..=6 => Term(rng.gen_range(2..(2 + nv).min(n))),
                _ => Term(rng.gen_range(0..n)),
            }
        };
        let a = pick(rng);
        let b = pick(rng);
        if k < 8 {
            let r = bdd.not(a);
            ops.push(json!({"op": "not", "a": a.value(), "b": 0, "v": 0, "val": false, "r": r.value(), "len": bdd.nodes.len()}));
        } else if k < 80 {
            let (name, r) = match rng.gen_range(0..6) {
                0 => ("and", bdd.and(a, b)),
                1 => ("or", bdd.or(a, b)),
                2 => ("imp", bdd.imp(a, b)),
                3 => ("iff", bdd.iff(a, b)),
                _ => ("xor", bdd.xor(a, b)),
            };
            ops.push(json!({"op": name, "a": a.value(), "b": b.value(), "v": 0, "val": false, "r": r.value(), "len": bdd.nodes.len()}));
        } else {
            let v = rng.gen_range(0..nv);
            let val = rng.gen_bool(0.5);
            let r = bdd.restrict(a, Var(v), val);
            ops.push(json!({"op": "restrict", "a": a.value(), "b": 0, "v": v, "val": val, "r": r.value(), "len": bdd.nodes.len()}));
        }
    }
    let n = bdd.nodes.len();
    let mut queries: Vec<Value> = Vec::new();
    // the deepest handles and a few random ones
    let mut hs: Vec<usize> = (0..n).collect();
    hs.sort_by_key(|h| std::cmp::Reverse(bdd.max_depth(Term(*h))));
    hs.truncate(3);
    for _ in 0..3 {
        hs.push(rng.gen_range(0..n));
    }
    for (k, h) in hs.into_iter().enumerate() {
        let mut q = query_json(rng, &bdd, nv, Term(h), format!("{}?{}.{}", id, h, k));
        let obj = q.as_object_mut().unwrap();
        obj.remove("nodes");
        obj.remove("feat");
        // path cubes for one goal variable and both goals
        let gv = rng.gen_range(0..nv);
        if let Some(Value::Array(cs)) = obj.get_mut("cubes") {
            cs.retain(|c| c["gv"].as_u64() == Some(gv as u64));
        }
        queries.push(q);
    }
    out.push(json!({"kind": "bigseq", "id": id, "nv": nv, "feat": features_json(), "nodes": nodes_json(&bdd), "ops": ops, "cps": cps,
                    "dump": dump_json(&bdd), "queries": queries}));
}

// ------------------------------------------------------------------------------------------------ exhaustive short sequences
#[derive(Clone, Copy, Debug)]
enum XOp {
    Var(usize),
    Not(usize),
    Bin(u8, usize, usize),
    Res(usize, usize, bool),
}

fn eval_mask(bdd: &Bdd, h: usize, nv: usize) -> u32 {
    // truth table of handle h over nv variables as a bit mask (bit A set iff assignment A satisfies), by walking the node table
    let mut m = 0u32;
    for a in 0..(1u32 << nv) {
        let mut t = h;
        let mut fuel = bdd.nodes.len() + 2;
        while t > 1 && fuel > 0 {
            let n = bdd.nodes[t];
            t = if (a >> n.var().value()) & 1 == 1 { n.hi().value() } else { n.lo().value() };
            fuel -= 1;
        }
        if t == 1 {
            m |= 1 << a;
        }
    }
    m
}

fn apply_x(bdd: &mut Bdd, op: XOp) -> Term {
    match op {
        XOp::Var(v) => bdd.variable(Var(v)),
        XOp::Not(a) => bdd.not(Term(a)),
        XOp::Bin(k, a, b) => match k {
            0 => bdd.and(Term(a), Term(b)),
            1 => bdd.or(Term(a), Term(b)),
            2 => bdd.imp(Term(a), Term(b)),
            3 => bdd.iff(Term(a), Term(b)),
            _ => bdd.xor(Term(a), Term(b)),
        },
        XOp::Res(a, v, b) => bdd.restrict(Term(a), Var(v), b),
    }
}

fn expected_mask(op: XOp, masks: &[u32], nv: usize) -> u32 {
    let full = (1u32 << (1 << nv)) - 1;
    let varmask = |v: usize| (0..(1u32 << nv)).filter(|a| (a >> v) & 1 == 1).fold(0u32, |m, a| m | (1 << a));
    match op {
        XOp::Var(v) => varmask(v),
        XOp::Not(a) => !masks[a] & full,
        XOp::Bin(k, a, b) => (match k {
            0 => masks[a] & masks[b],
            1 => masks[a] | masks[b],
            2 => !masks[a] | masks[b],
            3 => !(masks[a] ^ masks[b]),
            _ => masks[a] ^ masks[b],
        }) & full,
        XOp::Res(a, v, b) => {
            let mut m = 0u32;
            for x in 0..(1u32 << nv) {
                let y = if b { x | (1 << v) } else { x & !(1 << v) };
                if (masks[a] >> y) & 1 == 1 {
                    m |= 1 << x;
                }
            }
            m
        }
    }
}

/// does the store, after this sequence on a fresh object, look right to a cheap in-harness test?  (a SELECTOR only: every
/// sequence it flags, and a sample of the others, is recorded in full and judged by TLC like any other sequence)
fn sequence_suspicious(ops: &[XOp], nv: usize) -> bool {
    let mut bdd = Bdd::new();
    let mut masks: Vec<u32> = vec![0, (1u32 << (1 << nv)) - 1];
    for op in ops {
        let before = bdd.nodes.len();
        let want = expected_mask(*op, &masks, nv);
        let r = apply_x(&mut bdd, *op).value();
        if r >= bdd.nodes.len() || bdd.nodes.len() < before {
            return true;
        }
        let now: Vec<u32> = (0..bdd.nodes.len()).map(|h| eval_mask(&bdd, h, nv)).collect();
        if now[..before] != masks[..] || now[r] != want {
            return true;
        }
        // canonical: pairwise different functions
        let mut sorted = now.clone();
        sorted.sort_unstable();
        if sorted.windows(2).any(|w| w[0] == w[1]) {
            return true;
        }
        masks = now;
    }
    false
}

fn record_sequence(id: String, ops: &[XOp], nv: usize, out: &mut Vec<Value>) {
    let mut bdd = Bdd::new();
    out.push(json!({"kind": "reset", "id": id, "nv": nv, "src": "fresh", "nodes": nodes_json(&bdd), "dump": dump_json(&bdd), "feat": features_json()}));
    let mut rec = Rec { out: Vec::new(), seq: id.clone(), step: 0 };
    for (i, op) in ops.iter().enumerate() {
        let last = i + 1 == ops.len();
        match *op {
            XOp::Var(v) => { let r = bdd.variable(Var(v)); rec.push_op(&bdd, nv, "var", 0, 0, v, false, r.value(), last); }
            XOp::Not(a) => { let r = bdd.not(Term(a)); rec.push_op(&bdd, nv, "not", a, 0, 0, false, r.value(), last); }
            XOp::Bin(k, a, b) => {
                let r = apply_x(&mut bdd, XOp::Bin(k, a, b));
                rec.push_op(&bdd, nv, ["and", "or", "imp", "iff", "xor"][k as usize], a, b, 0, false, r.value(), last);
            }
            XOp::Res(a, v, b) => { let r = bdd.restrict(Term(a), Var(v), b); rec.push_op(&bdd, nv, "restrict", a, 0, v, b, r.value(), last); }
        }
    }
    out.append(&mut rec.out);
}

/// EVERY operation sequence of the given length on a fresh store over nv variables (operands range over all handles that exist at
/// that point): the orders nobody writes - a variable asked for after its negation exists, a literal created out of order - are
/// all in here.  Far too many for TLC one by one: the selector above flags candidates, a fixed fraction is sampled.
pub fn exhaustive_sequences(nv: usize, len: usize, sample_every: usize, out: &mut Vec<Value>) {
    fn ops_for(n: usize, nv: usize) -> Vec<XOp> {
        let mut v: Vec<XOp> = (0..nv).map(XOp::Var).collect();
        for a in 0..n {
            v.push(XOp::Not(a));
            for var in 0..nv {
                v.push(XOp::Res(a, var, false));
                v.push(XOp::Res(a, var, true));
            }
            for b in 0..n {
                for k in 0..5u8 {
                    v.push(XOp::Bin(k, a, b));
                }
            }
        }
        v
    }
    let mut total = 0usize;
    let mut flagged = 0usize;
    let mut emitted = 0usize;
    // depth-first over sequences; the table size after a prefix decides the alphabet of the next step
    fn rec_enum(prefix: &mut Vec<XOp>, nv: usize, len: usize, sample_every: usize, total: &mut usize, flagged: &mut usize, emitted: &mut usize, out: &mut Vec<Value>) {
        if prefix.len() == len {
            *total += 1;
            let bad = !matches!(std::panic::catch_unwind(std::panic::AssertUnwindSafe(|| sequence_suspicious(prefix, nv))), Ok(false));
            if bad {
                *flagged += 1;
            }
            if (bad && *emitted < 40) || *total % sample_every == 0 {
                *emitted += 1;
                breadcrumb(&json!({"kind": "exhaustive-sequence", "ops": format!("{:?}", prefix)}));
                let id = format!("X{}", *total);
                let mut local: Vec<Value> = Vec::new();
                if std::panic::catch_unwind(std::panic::AssertUnwindSafe(|| record_sequence(id.clone(), prefix, nv, &mut local))).is_err() {
                    local.clear();
                    local.push(json!({"kind": "panic", "id": id, "what": format!("store operation panicked in sequence {:?}", prefix)}));
                }
                out.append(&mut local);
            }
            return;
        }
        // table size after the prefix (on the real store)
        let n = match std::panic::catch_unwind(std::panic::AssertUnwindSafe(|| { let mut b = Bdd::new(); for op in prefix.iter() { apply_x(&mut b, *op); } b.nodes.len() })) {
            Ok(n) => n,
            _ => { *flagged += 1; return; }
        };
        for op in ops_for(n, nv) {
            prefix.push(op);
            rec_enum(prefix, nv, len, sample_every, total, flagged, emitted, out);
            prefix.pop();
        }
    }
    let mut prefix = Vec::new();
    rec_enum(&mut prefix, nv, len, sample_every, &mut total, &mut flagged, &mut emitted, out);
    out.push(json!({"kind": "stat", "id": format!("exhaustive-sequences-nv{}-len{}", nv, len), "sequences": total, "flagged": flagged, "emitted": emitted}));
}

/// A store that was filled over a channel (the streaming mirror) and is then used as a store of its own: it receives the producer's
/// nodes, may create a literal of its own before the documented repair step, is repaired, and carries on with ordinary operations.
/// Every state after the repair is audited like any other store state (C06 / C07 / C13); needs the frontend feature.
#[cfg(feature = "frontend")]
fn seq_mirror(rng: &mut StdRng, id: String, len: usize, out: &mut Vec<Value>) {
    let nv = rng.gen_range(3..=5usize);
    let (s, r) = crossbeam_channel::unbounded();
    let mut prod = Bdd::with_sender(s);
    // the producer leaves one variable out most of the time: the mirror may then create that literal itself
    let skip = if rng.gen_bool(0.7) { Some(rng.gen_range(0..nv)) } else { None };
    for v in 0..nv {
        if Some(v) != skip { prod.variable(Var(v)); }
    }
    let mut scratch = Rec { out: Vec::new(), seq: id.clone(), step: 0 };
    for _ in 0..rng.gen_range(4..=14) {
        rand_op_vars(rng, &mut prod, nv, skip, &mut scratch);
    }
    let mut mirror = Bdd::with_receiver(r);
    mirror.recv(Term(prod.nodes.len() + 3));
    let before = rng.gen_bool(0.6);
    if before {
        if let Some(v) = skip { mirror.variable(Var(v)); }
    }
    mirror.fix_import();
    out.push(json!({"kind": "reset", "id": id, "nv": nv, "src": "mirror", "created_before_repair": before && skip.is_some(),
                    "nodes": nodes_json(&mirror), "dump": dump_json(&mirror), "feat": features_json()}));
    let mut rec = Rec { out: Vec::new(), seq: id.clone(), step: 0 };
    for i in 0..len {
        rand_op(rng, &mut mirror, nv, &mut rec, i + 1 == len);
    }
    out.append(&mut rec.out);
}

/// like rand_op, never mentioning the variable `skip`, nothing recorded (the producer side of seq_mirror)
#[cfg(feature = "frontend")]
fn rand_op_vars(rng: &mut StdRng, bdd: &mut Bdd, nv: usize, skip: Option<usize>, _rec: &mut Rec) {
    let a = rand_handle(rng, bdd);
    let b = rand_handle(rng, bdd);
    match rng.gen_range(0..7) {
        0 => { bdd.and(a, b); }
        1 => { bdd.or(a, b); }
        2 => { bdd.xor(a, b); }
        3 => { bdd.iff(a, b); }
        4 => { bdd.imp(a, b); }
        5 => { bdd.not(a); }
        _ => {
            let v = rng.gen_range(0..nv);
            if Some(v) != skip { bdd.restrict(a, Var(v), rng.gen_bool(0.5)); }
        }
    }
}

/// sequences on the store of a compiled ADF (native or bridge), with semantics calls warming the caches
fn seq_adf(rng: &mut StdRng, id: String, len: usize, out: &mut Vec<Value>) {
    let n = rng.gen_range(2..=5);
    let case = rand_adf(rng, n, id.clone());
    let text = case.text();
    let parser = AdfParser::default();
    parser.parse()(&text).unwrap();
    let bridge = rng.gen_bool(0.5);
    let mut adf: Adf = if bridge { BdAdf::from_parser(&parser).hybrid_step_opt(false) } else { Adf::from_parser(&parser) };
    out.push(json!({"kind": "reset", "id": id, "nv": n, "src": if bridge { "bridge" } else { "native" }, "text": text,
                    "nodes": nodes_json(&adf.bdd), "dump": dump_json(&adf.bdd), "feat": features_json()}));
    let mut rec = Rec { out: Vec::new(), seq: id.clone(), step: 0 };
    for i in 0..len {
        if rng.gen_range(0..100) < 25 {
            // a semantics call in between: opaque for the store model, its effect on the tables is audited
            let which = rng.gen_range(0..6);
            let name = match which {
                0 => {
                    adf.grounded();
                    "grounded"
                }
                1 => {
                    let _ = adf.complete().count();
                    "complete"
                }
                2 => {
                    let _ = adf.stable().count();
                    "stable"
                }
                3 => {
                    let _ = adf.stable_count_optimisation_heu_a().count();
                    "count_a"
                }
                4 => {
                    let _ = adf.stable_nogood(adf_bdd::adf::heuristics::Heuristic::Simple).count();
                    "ng"
                }
                _ => {
                    adf.fix_import();
                    "repair"
                }
            };
            rec.step += 1;
            rec.out.push(json!({"kind": "opaque", "id": format!("{}#{}", id, rec.step), "call": name, "nv": n,
                                "nodes": nodes_json(&adf.bdd), "dump": dump_json(&adf.bdd), "feat": features_json()}));
        } else {
            rand_op(rng, &mut adf.bdd, n, &mut rec, i + 1 == len);
        }
    }
    out.append(&mut rec.out);
    // the Adf-level counting queries on the acceptance conditions and on a partly decided interpretation
    {
        let g = adf.grounded();
        for (what, terms) in [("ac", adf.ac.clone()), ("grounded", g)] {
            let fc = adf.facet_count(&terms);
            out.push(json!({"kind": "adfquery", "id": format!("{}?facet-{}", id, what), "nv": n, "nodes": nodes_json(&adf.bdd), "feat": features_json(),
                            "terms": terms.iter().map(|t| t.value()).collect::<Vec<_>>(),
                            "facet_models": fc.iter().map(|(m, _)| vec![m.cmodels, m.models]).collect::<Vec<_>>(),
                            "facets": fc.iter().map(|(_, f)| vec![f.0, f.1]).collect::<Vec<_>>(),
                            "formulacounts": if what == "ac" { adf.formulacounts(false).iter().map(|m| vec![m.cmodels, m.models]).collect::<Vec<_>>() } else { vec![] }}));
        }
    }
    let nn = adf.bdd.nodes.len();
    for k in 0..8 {
        let h = rng.gen_range(0..nn);
        out.push(query_json(rng, &adf.bdd, n, Term(h), format!("{}?{}.{}", id, h, k)));
    }
}

pub fn main(args: &[String]) {
    let mut tier = "quick".to_string();
    let mut out = String::new();
    let mut nseq: Option<usize> = None;
    let mut i = 0;
    while i < args.len() {
        match args[i].as_str() {
            "--tier" => {
                tier = args[i + 1].clone();
                i += 1
            }
            "--out" => {
                out = args[i + 1].clone();
                i += 1
            }
            "--nseq" => {
                nseq = args[i + 1].parse().ok();
                i += 1
            }
            _ => {}
        }
        i += 1;
    }
    quiet_panics();
    let seed = env_seed();
    let mut rng = StdRng::seed_from_u64(seed ^ 0xbdd0_0001);
    let n = nseq.unwrap_or(if tier == "thorough" { 1200 } else { 160 });
    let mut recs: Vec<Value> = Vec::new();
    for k in 0..n {
        let len = rng.gen_range(8..=22);
        match k % 4 {
            0 | 1 => seq_fresh(&mut rng, format!("f{}", k), len, &mut recs, k % 8 == 1),
            _ => seq_adf(&mut rng, format!("a{}", k), len.min(14), &mut recs),
        }
        // own random stream: builds without the frontend feature must generate the very same other sequences
        #[cfg(feature = "frontend")]
        if k % 5 == 4 {
            let mut mr = StdRng::seed_from_u64(seed ^ 0x3127_0000 ^ (k as u64));
            seq_mirror(&mut mr, format!("m{}", k), len.min(12), &mut recs);
        }
    }
    // long sequences on large stores, spread over the trace
    {
        let nbig = if nseq.is_some() { 12 } else if tier == "thorough" { 150 } else { 16 };
        let mut bigs: Vec<Value> = Vec::new();
        for k in 0..nbig {
            seq_big(&mut rng, format!("B{}", k), &mut bigs);
        }
        // only at sequence boundaries ("reset" records start a sequence)
        let resets: Vec<usize> = recs.iter().enumerate().filter(|(_, r)| r["kind"] == "reset").map(|(i, _)| i).collect();
        let stride = (resets.len() / (nbig + 1)).max(1);
        for (k, b) in bigs.into_iter().enumerate().rev() {
            let at = resets[((k + 1) * stride).min(resets.len() - 1)];
            recs.insert(at, b);
        }
    }
    // every sequence of three operations on a fresh store over three variables (thorough: also four operations over two)
    if nseq.is_none() {
        exhaustive_sequences(3, 3, 4000, &mut recs);
        if tier == "thorough" {
            exhaustive_sequences(2, 4, 250_000, &mut recs);
        }
    }
    let mut f = std::io::BufWriter::new(std::fs::File::create(&out).expect("cannot create out file"));
    for r in &recs {
        writeln!(f, "{}", r).unwrap();
    }
    f.flush().unwrap();
    eprintln!("bdd: {} sequences, {} records", n, recs.len());
}
