//! guarded execution: a panic / hang of the code under test is data, not a harness failure
use adf_bdd::datatypes::Term;
use serde_json::{json, Value};
use std::sync::atomic::{AtomicUsize, Ordering};
use std::time::Duration;

pub static TIMEOUTS: AtomicUsize = AtomicUsize::new(0);

/// once this many cases have run into their wall-clock budget the harness stops generating new cases: the hangs it has
/// already recorded decide the check, and every further hang would cost another budget (plus a spinning thread)
pub const MAX_TIMEOUTS: usize = 8;
pub fn give_up() -> bool {
    TIMEOUTS.load(Ordering::SeqCst) >= MAX_TIMEOUTS
}

pub fn quiet_panics() {
    std::panic::set_hook(Box::new(|_| {}));
}

/// leave a note about the case that is about to run: if the code under test kills the whole process (stack overflow,
/// abort), the driver finds the last note next to the trace and puts it into the replay file
pub fn breadcrumb(v: &Value) {
    if let Ok(p) = std::env::var("VERIF_CRUMB") {
        let _ = std::fs::write(p, v.to_string());
    }
}

pub enum Outcome<T> {
    Ok(T),
    Panic(String),
    Timeout,
}

impl<T> Outcome<T> {
    pub fn status(&self) -> &'static str {
        match self {
            Outcome::Ok(_) => "ok",
            Outcome::Panic(_) => "panic",
            Outcome::Timeout => "timeout",
        }
    }
    pub fn msg(&self) -> String {
        match self {
            Outcome::Panic(m) => m.clone(),
            _ => String::new(),
        }
    }
}

/// run `f` on a worker thread with a wall-clock budget; the closure owns everything it needs
pub fn guarded<T: Send + 'static>(secs: u64, f: impl FnOnce() -> T + Send + 'static) -> Outcome<T> {
    let (s, r) = std::sync::mpsc::channel();
    let builder = std::thread::Builder::new().stack_size(64 * 1024 * 1024);
    let _ = builder.spawn(move || {
        let res = std::panic::catch_unwind(std::panic::AssertUnwindSafe(f));
        let _ = s.send(res);
    });
    match r.recv_timeout(Duration::from_secs(secs)) {
        Ok(Ok(v)) => Outcome::Ok(v),
        Ok(Err(e)) => {
            let m = if let Some(s) = e.downcast_ref::<&str>() {
                s.to_string()
            } else if let Some(s) = e.downcast_ref::<String>() {
                s.clone()
            } else {
                "panic".to_string()
            };
            Outcome::Panic(m.chars().take(160).collect())
        }
        Err(_) => {
            TIMEOUTS.fetch_add(1, Ordering::SeqCst);
            Outcome::Timeout
        }
    }
}

pub fn tv(t: &Term) -> &'static str {
    if t.is_truth_value() {
        if t.is_true() {
            "T"
        } else {
            "F"
        }
    } else {
        "U"
    }
}

pub fn interp_json(v: &[Term]) -> Value {
    Value::Array(v.iter().map(|t| json!(tv(t))).collect())
}

pub fn interps_json(vs: &[Vec<Term>]) -> Value {
    Value::Array(vs.iter().map(|v| interp_json(v)).collect())
}

pub fn env_seed() -> u64 {
    std::env::var("VERIF_SEED").ok().and_then(|s| s.parse().ok()).unwrap_or(1)
}
