//! C09: compilation of small and LARGE ADFs (dozens of statements, deep formulas) on the native path, through the
//! biodivine bridge and through the pre-grounded bridge; ASTs, roots and the complete node table are logged.
//! C10: presentations (fact order, sorting, layout, renaming) of one base ADF and the answers read as label maps.
use crate::bddops::*;
use crate::gen::*;
use crate::syntax::*;
use crate::util::*;
use adf_bdd::adf::heuristics::Heuristic;
use adf_bdd::adf::Adf;
use adf_bdd::adfbiodivine::Adf as BdAdf;
use adf_bdd::datatypes::Term;
use adf_bdd::parser::AdfParser;
use rand::rngs::StdRng;
use rand::{Rng, SeedableRng};
use serde_json::{json, Value};
use std::io::Write;

fn big_adf(rng: &mut StdRng, n: usize, max_sup: usize, depth: usize) -> Vec<Ast> {
    (0..n)
        .map(|s| {
            let k = rng.gen_range(0..=max_sup.min(n));
            let mut sup: Vec<usize> = (0..n).collect();
            for i in 0..k {
                let j = rng.gen_range(i..n);
                sup.swap(i, j);
            }
            sup.truncate(k);
            let kind = rng.gen_range(0..10);
            if kind == 0 && s > 0 {
                // chains make the grounded interpretation non-trivial (pre-grounded import)
                if rng.gen_bool(0.5) { Ast::Atom(s - 1) } else { not(Ast::Atom(s - 1)) }
            } else if kind == 1 {
                if rng.gen_bool(0.5) { Ast::Top } else { Ast::Bot }
            } else if k == 0 {
                rand_ast(rng, n, 1, Some(&[s]))
            } else {
                rand_ast(rng, n, depth, Some(&sup))
            }
        })
        .collect()
}

fn sort_parser(parser: &AdfParser, sort: &str) {
    match sort {
        "lexi" => { parser.varsort_lexi(); }
        "alphanum" => { parser.varsort_alphanum(); }
        _ => {}
    }
}

fn compile_case(rng: &mut StdRng, id: String, n: usize, max_sup: usize, depth: usize, out: &mut Vec<Value>) {
    let asts = big_adf(rng, n, max_sup, depth);
    let labels: Vec<String> = if rng.gen_bool(0.5) {
        (0..n).map(|i| format!("s{}", i)).collect()
    } else {
        // labels whose byte order, natural order and declaration order all differ
        let mut l: Vec<String> = (0..n).map(|i| format!("{}{}", ["x", "X", "", "a", "b1"][i % 5], (i * 7 + 3) % (2 * n))).collect();
        l.dedup();
        let mut seen = std::collections::HashSet::new();
        l.into_iter().enumerate().map(|(i, x)| if seen.insert(x.clone()) { x } else { format!("u{}", i) }).collect()
    };
    compile_given(rng, id, labels, asts, &["native", "bridge", "hybrid"], out);
}

/// "twin" conditions: two statements whose conditions read alike once the quotes are dropped (`and("m,n",o)` / `and(m,"n,o")`,
/// `neg(m)` / the statement named "neg(m)", `c(v)` / the statement named "c(v)") - whoever identifies a condition by a rendering
/// of it instead of by its structure merges them.  Labels with brackets are native-only (known finding F9 on the bridge).
fn twin_case(rng: &mut StdRng, id: String, out: &mut Vec<Value>) {
    let bin = |k: usize, a: Ast, b: Ast| -> Ast {
        match k % 5 { 0 => and(a, b), 1 => or(a, b), 2 => xor(a, b), 3 => iff(a, b), _ => imp(a, b) }
    };
    let opname = ["and", "or", "xor", "iff", "imp"];
    let k = rng.gen_range(0..5);
    let at = |i: usize| Ast::Atom(i);
    let (labels, asts, paths): (Vec<String>, Vec<Ast>, &[&str]) = match rng.gen_range(0..6) {
        // converse pairs: an implication and its converse over the same operands, in two conditions and inside one - whoever treats
        // "one constant branch" as "commutative connective" (memo keys, swapped look-ups) confuses exactly these
        4 => (vec!["m".into(), "n".into(), "o".into(), "x".into(), "y".into(), "z".into()],
              vec![at(0), not(at(1)), at(2), imp(at(0), at(1)), imp(at(1), at(0)), and(imp(bin(k, at(0), at(2)), at(1)), imp(at(1), bin(k, at(0), at(2))))], &["native", "bridge", "hybrid"]),
        5 => (vec!["m".into(), "n".into(), "x".into(), "y".into()],
              vec![at(0), at(1), imp(iff(at(0), at(1)), xor(at(0), at(1))), imp(xor(at(0), at(1)), iff(at(0), at(1)))], &["native", "bridge", "hybrid"]),
        0 => (vec!["m".into(), "n,o".into(), "m,n".into(), "o".into(), "x".into(), "y".into()],
              vec![at(0), at(1), not(at(2)), at(3), bin(k, at(0), at(1)), bin(k, at(2), at(3))], &["native", "bridge", "hybrid"]),
        1 => (vec!["m".into(), "neg(m)".into(), "x".into(), "y".into()],
              vec![at(0), at(1), not(at(0)), at(1)], &["native"]),
        2 => (vec!["m".into(), "n".into(), format!("{}(m,n)", opname[k]), "x".into(), "y".into()],
              vec![at(0), not(at(1)), at(2), bin(k, at(0), at(1)), at(2)], &["native"]),
        _ => (vec!["c(v)".into(), "c(f)".into(), "x".into(), "y".into(), "z".into()],
              vec![at(0), at(1), Ast::Top, at(0), if rng.gen_bool(0.5) { at(1) } else { Ast::Bot }], &["native"]),
    };
    // the twins in either declaration order
    let (labels, asts) = if rng.gen_bool(0.5) { (labels, asts) } else {
        let n = labels.len();
        let perm: Vec<usize> = (0..n).rev().collect();
        let inv: Vec<usize> = { let mut v = vec![0; n]; for (p, b) in perm.iter().enumerate() { v[*b] = p; } v };
        (perm.iter().map(|b| labels[*b].clone()).collect(), perm.iter().map(|b| asts[*b].map_atoms(&|i| inv[i])).collect())
    };
    compile_given(rng, id, labels, asts, paths, out);
}

fn compile_given(rng: &mut StdRng, id: String, labels: Vec<String>, asts: Vec<Ast>, paths: &[&'static str], out: &mut Vec<Value>) {
    let n = labels.len();
    let facts = if rng.gen_bool(0.5) { canonical_facts(n) } else { shuffled_facts(rng, n) };
    let text = render(&labels, &asts, &facts, &plain_layout());
    let sort = ["none", "lexi", "alphanum"][rng.gen_range(0..3)];
    // random contexts for the variables outside a statement's support (positions in the reported order)
    let contexts: Vec<Vec<usize>> = (0..3).map(|_| (1..=n).filter(|_| rng.gen_bool(0.5)).collect()).collect();
    // every other case builds (and uses) an ADF from the same parser object BEFORE the sort: what is compiled afterwards must not care
    let prebuild = rng.gen_bool(0.5);
    for path in paths.iter().copied() {
        let (t, s2) = (text.clone(), sort.to_string());
        let res = guarded(120, move || {
            let parser = AdfParser::default();
            parser.parse()(&t).expect("harness text must parse");
            if prebuild {
                let mut early = Adf::from_parser(&parser);
                let _ = early.grounded();
                if path != "native" {
                    let _ = BdAdf::from_parser(&parser).grounded();
                }
            }
            sort_parser(&parser, &s2);
            let adf: Adf = match path {
                "native" => Adf::from_parser(&parser),
                "bridge" => Adf::from_biodivine(&BdAdf::from_parser(&parser)),
                _ => BdAdf::from_parser(&parser).hybrid_step(),
            };
            let names: Vec<String> = adf.ordering.names().read().unwrap().clone();
            (names, adf.ac.iter().map(|t| t.value()).collect::<Vec<_>>(), nodes_json(&adf.bdd))
        });
        match res {
            Outcome::Ok((names, ac, nodes)) => {
                // statement at reported position p has label names[p]; its written condition is asts[base index of that label]
                let pos_of: Vec<Option<usize>> = labels.iter().map(|l| names.iter().position(|x| x == l)).collect();
                if pos_of.iter().any(|p| p.is_none()) || names.len() != n {
                    out.push(json!({"kind": "compile", "id": format!("{}/{}", id, path), "n": n, "path": path, "sort": sort, "st": "names-lost",
                                    "asts": [], "ac": [], "nodes": [], "contexts": [], "text": text}));
                    continue;
                }
                let mut by_pos: Vec<Value> = vec![json!(["bot"]); n];
                for (b, a) in asts.iter().enumerate() {
                    by_pos[pos_of[b].unwrap()] = a.to_json(&|i| json!(pos_of[i].unwrap() + 1));
                }
                out.push(json!({"kind": "compile", "id": format!("{}/{}", id, path), "n": n, "path": path, "sort": sort, "st": "ok",
                                "asts": by_pos, "ac": ac, "nodes": nodes, "contexts": contexts, "text": text,
                                "names": names.iter().map(|x| cps(x)).collect::<Vec<_>>()}));
            }
            o => out.push(json!({"kind": "compile", "id": format!("{}/{}", id, path), "n": n, "path": path, "sort": sort, "st": o.status(), "msg": o.msg(),
                                 "asts": [], "ac": [], "nodes": [], "contexts": [], "text": text})),
        }
    }
}

pub fn main_compile(args: &[String]) {
    let (tier, out) = parse_args(args);
    quiet_panics();
    let mut rng = StdRng::seed_from_u64(env_seed() ^ 0xc09c_0911);
    let mut recs = Vec::new();
    let (nsmall, nbig) = if tier == "thorough" { (1500, 90) } else { (250, 14) };
    for k in 0..nsmall {
        let n = rng.gen_range(1..=5);
        let d = rng.gen_range(1..=4);
        compile_case(&mut rng, format!("c{}", k), n, 5, d, &mut recs);
    }
    for k in 0..(if tier == "thorough" { 240 } else { 48 }) {
        twin_case(&mut rng, format!("t{}", k), &mut recs);
    }
    for k in 0..nbig {
        let n = rng.gen_range(20..=40);
        let (ms, d) = if tier == "thorough" { (rng.gen_range(4..=9), rng.gen_range(5..=9)) } else { (rng.gen_range(4..=7), rng.gen_range(5..=7)) };
        compile_case(&mut rng, format!("C{}", k), n, ms, d, &mut recs);
    }
    write_out(&out, &recs);
    eprintln!("compile: {} records", recs.len());
    std::process::exit(0);
}

fn parse_args(args: &[String]) -> (String, String) {
    let mut tier = "quick".to_string();
    let mut out = String::new();
    let mut i = 0;
    while i < args.len() {
        match args[i].as_str() {
            "--tier" => { tier = args[i + 1].clone(); i += 1 }
            "--out" => { out = args[i + 1].clone(); i += 1 }
            _ => {}
        }
        i += 1;
    }
    (tier, out)
}

fn write_out(out: &str, recs: &[Value]) {
    let mut f = std::io::BufWriter::new(std::fs::File::create(out).expect("cannot create out file"));
    for r in recs {
        writeln!(f, "{}", r).unwrap();
    }
    f.flush().unwrap();
}

// ------------------------------------------------------------------------------------------------ C10
fn tvs(v: &[Vec<Term>]) -> Value {
    interps_json(v)
}

fn meta_case(rng: &mut StdRng, id: String, n: usize, big: bool, out: &mut Vec<Value>) {
    let asts = if big { big_adf(rng, n, 5, 5) } else { rand_adf(rng, n, id.clone()).asts };
    let npres = if big { 3 } else { 4 };
    let mut pres = Vec::new();
    for p in 0..npres {
        let style = if p == 0 { LabelStyle::Plain } else { [LabelStyle::Keywords, LabelStyle::Quoted, LabelStyle::Plain][rng.gen_range(0..3)] };
        let labels: Vec<String> = if big {
            let pre = ["n", "N", "", "zz", "a"][p % 5];
            let mut idx: Vec<usize> = (0..n).collect();
            for i in (1..n).rev() {
                idx.swap(i, rng.gen_range(0..=i));
            }
            idx.iter().map(|i| format!("{}{}", pre, i * 3 + 1)).collect()
        } else {
            pick_labels(rng, n, style)
        };
        let facts = if p == 0 { canonical_facts(n) } else { shuffled_facts(rng, n) };
        let lay = if p % 2 == 0 { plain_layout() } else { rand_layout(rng) };
        let sort = ["none", "lexi", "alphanum"][if p == 0 { 0 } else { rng.gen_range(0..3) }];
        let text = render(&labels, &asts, &facts, &lay);
        let (t, s2) = (text.clone(), sort.to_string());
        let prebuild = p % 2 == 1;
        let res = guarded(120, move || {
            let parser = AdfParser::default();
            parser.parse()(&t).expect("harness text must parse");
            if prebuild {
                // an ADF is built (and used) from the same parser BEFORE the sort; the one built afterwards must not care
                let mut early = Adf::from_parser(&parser);
                let _ = early.grounded();
                let _ = BdAdf::from_parser(&parser).grounded();
            }
            sort_parser(&parser, &s2);

            let names: Vec<String> = parser.var_container().names().read().unwrap().clone();
            let dictvals: Vec<i64> = names.iter().map(|x| parser.dict_value(x).map(|v| v as i64).unwrap_or(-1)).collect();
            let mut calls = Vec::new();
            let mut adf = Adf::from_parser(&parser);
            let g = adf.grounded();
            let und = g.iter().filter(|t| !t.is_truth_value()).count();
            calls.push(json!({"c": "grounded", "b": "native", "r": tvs(&[g])}));
            let bio = BdAdf::from_parser(&parser);
            calls.push(json!({"c": "grounded", "b": "bio", "r": tvs(&[bio.grounded()])}));
            let mut hy = bio.hybrid_step();
            calls.push(json!({"c": "grounded", "b": "hybrid", "r": tvs(&[hy.grounded()])}));
            if und <= 7 {
                calls.push(json!({"c": "complete", "b": "native", "r": tvs(&adf.complete().collect::<Vec<_>>())}));
                calls.push(json!({"c": "complete", "b": "bio", "r": tvs(&bio.complete().collect::<Vec<_>>())}));
                calls.push(json!({"c": "stable", "b": "native", "r": tvs(&adf.stable().collect::<Vec<_>>())}));
                calls.push(json!({"c": "stable", "b": "hybrid", "r": tvs(&hy.stable().collect::<Vec<_>>())}));
                // the single-formula rewritings (built from the parser's formula order)
                let bio_rw = BdAdf::from_parser_with_stm_rewrite(&parser);
                calls.push(json!({"c": "stable", "b": "bio-rew", "r": tvs(&bio_rw.stable_bdd_representation())}));
                calls.push(json!({"c": "stable", "b": "bio-rew2", "r": tvs(&bio.stable_bdd_representation())}));
                calls.push(json!({"c": "stable", "b": "native-rew", "r": tvs(&adf.stable_bdd_representation(&bio_rw))}));
                calls.push(json!({"c": "stable_ng", "b": "native", "r": tvs(&adf.stable_nogood(Heuristic::Simple).collect::<Vec<_>>())}));
                let (s, r) = crossbeam_channel::unbounded();
                adf.two_val_nogood_channel(Heuristic::Simple, s);
                calls.push(json!({"c": "twoval", "b": "native", "r": tvs(&r.try_iter().collect::<Vec<_>>())}));
            }
            (names, dictvals, calls)
        });
        let sfacts: Vec<Value> = facts.iter().filter_map(|f| if let Fact::S(i) = f { Some(json!(cps(&labels[*i]))) } else { None }).collect();
        match res {
            Outcome::Ok((names, dictvals, calls)) => pres.push(json!({"st": "ok", "ren": labels.iter().map(|l| cps(l)).collect::<Vec<_>>(), "sort": sort,
                "names": names.iter().map(|l| cps(l)).collect::<Vec<_>>(), "calls": calls, "text": text, "sfacts": sfacts, "dictvals": dictvals})),
            o => pres.push(json!({"st": o.status(), "msg": o.msg(), "ren": [], "sort": sort, "names": [], "calls": [], "text": text})),
        }
    }
    out.push(json!({"kind": "meta", "id": id, "n": n,
                    "base_asts": if n <= 5 { asts.iter().map(|a| a.to_json_idx()).collect::<Vec<_>>() } else { vec![] },
                    "pres": pres}));
}

pub fn main_meta(args: &[String]) {
    let (tier, out) = parse_args(args);
    quiet_panics();
    let mut rng = StdRng::seed_from_u64(env_seed() ^ 0x3e7a_0010);
    let mut recs = Vec::new();
    let (nsmall, nbig) = if tier == "thorough" { (2500, 120) } else { (350, 16) };
    for k in 0..nsmall {
        let n = rng.gen_range(2..=5);
        meta_case(&mut rng, format!("m{}", k), n, false, &mut recs);
    }
    for k in 0..nbig {
        let n = rng.gen_range(20..=32);
        meta_case(&mut rng, format!("M{}", k), n, true, &mut recs);
    }
    write_out(&out, &recs);
    eprintln!("meta: {} base ADFs", recs.len());
    std::process::exit(0);
}
