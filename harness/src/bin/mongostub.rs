//! A MongoDB wire stub: recorder AND scheduler for the adf-bdd-server (C16, C17).
//! Speaks the OP_MSG (and, defensively, OP_QUERY) subset that the mongodb 2.8 driver uses; no sessions / topologyVersion
//! are advertised, so the driver neither streams hello nor retries writes.
//! Control channel (second listener, one JSON object per line): reset | dump | log | hold | release | held | quit.
//! A held command is parked BEFORE it is applied; its connection simply waits.
use bson::{doc, Bson, Document};
use std::collections::BTreeMap;
use std::io::{BufRead, BufReader, Read, Write};
use std::net::{TcpListener, TcpStream};
use std::sync::{Arc, Condvar, Mutex};

#[derive(Default)]
struct State {
    colls: BTreeMap<String, Vec<Document>>,
    unique: Vec<(String, String)>, // (collection, field)
    log: Vec<serde_json::Value>,
    seq: u64,
    holds: Vec<Hold>,     // armed patterns
    held: Vec<HeldCmd>,   // parked commands
    next_hold: u64,
    unknown: Vec<String>,
    oid: u32,
}

struct Hold {
    id: u64,
    cmd: String,
    coll: String,
    contains: String, // substring of the JSON rendering of the command (may be empty)
    remaining: u32,
    skip: u32, // let this many matching commands pass first ("the k-th command of the request")
}

struct HeldCmd {
    id: u64,
    hold: u64,
    released: bool,
    desc: serde_json::Value,
}

type Shared = Arc<(Mutex<State>, Condvar)>;

fn to_json(d: &Document) -> serde_json::Value {
    Bson::Document(d.clone()).into_relaxed_extjson()
}

fn get_path<'a>(d: &'a Document, path: &str) -> Option<&'a Bson> {
    let mut cur: &Document = d;
    let parts: Vec<&str> = path.split('.').collect();
    for (i, p) in parts.iter().enumerate() {
        match cur.get(*p) {
            Some(b) if i + 1 == parts.len() => return Some(b),
            Some(Bson::Document(inner)) => cur = inner,
            _ => return None,
        }
    }
    None
}

fn set_path(d: &mut Document, path: &str, v: Bson) {
    let parts: Vec<&str> = path.split('.').collect();
    if parts.len() == 1 {
        d.insert(path, v);
        return;
    }
    let head = parts[0];
    if !matches!(d.get(head), Some(Bson::Document(_))) {
        d.insert(head, Bson::Document(Document::new()));
    }
    if let Some(Bson::Document(inner)) = d.get_mut(head) {
        set_path(inner, &parts[1..].join("."), v);
    }
}

fn matches(d: &Document, filter: &Document) -> bool {
    filter.iter().all(|(k, v)| match v {
        Bson::Document(op) if op.keys().any(|x| x.starts_with('$')) => {
            // only $eq is ever needed
            op.get("$eq").map(|e| get_path(d, k) == Some(e)).unwrap_or(false)
        }
        _ => get_path(d, k) == Some(v),
    })
}

fn read_cstring(buf: &[u8], pos: &mut usize) -> String {
    let start = *pos;
    while buf[*pos] != 0 {
        *pos += 1;
    }
    let s = String::from_utf8_lossy(&buf[start..*pos]).to_string();
    *pos += 1;
    s
}

fn read_doc(buf: &[u8], pos: &mut usize) -> Document {
    let len = i32::from_le_bytes(buf[*pos..*pos + 4].try_into().unwrap()) as usize;
    let d = Document::from_reader(&mut &buf[*pos..*pos + len]).unwrap_or_default();
    *pos += len;
    d
}

fn hello_reply() -> Document {
    doc! {
        "ismaster": true, "isWritablePrimary": true, "helloOk": true,
        "maxBsonObjectSize": 16777216i32, "maxMessageSizeBytes": 48000000i32, "maxWriteBatchSize": 100000i32,
        "localTime": bson::DateTime::now(), "minWireVersion": 0i32, "maxWireVersion": 13i32, "readOnly": false, "ok": 1.0
    }
}

/// apply one data command; returns (reply, log entry)
fn apply(st: &mut State, conn: u64, body: &Document) -> (Document, serde_json::Value) {
    let (name, val) = body.iter().next().map(|(k, v)| (k.clone(), v.clone())).unwrap_or_default();
    let db = body.get_str("$db").unwrap_or("admin").to_string();
    let coll = val.as_str().map(|c| format!("{}.{}", db, c)).unwrap_or_default();
    st.seq += 1;
    let seq = st.seq;
    let mut entry = serde_json::json!({"seq": seq, "conn": conn, "cmd": name, "coll": val.as_str().unwrap_or(""), "n": 0});
    let reply = match name.as_str() {
        "hello" | "isMaster" | "ismaster" => hello_reply(),
        "ping" | "endSessions" | "killCursors" | "abortTransaction" => doc! {"ok": 1.0},
        "buildInfo" | "buildinfo" => doc! {"version": "5.0.0", "ok": 1.0},
        "createIndexes" => {
            if let Ok(ix) = body.get_array("indexes") {
                for i in ix {
                    if let Bson::Document(i) = i {
                        if i.get_bool("unique").unwrap_or(false) {
                            if let Ok(k) = i.get_document("key") {
                                for (f, _) in k {
                                    let e = (coll.clone(), f.clone());
                                    if !st.unique.contains(&e) {
                                        st.unique.push(e);
                                    }
                                }
                            }
                        }
                    }
                }
            }
            st.colls.entry(coll.clone()).or_default();
            doc! {"numIndexesBefore": 1i32, "numIndexesAfter": 2i32, "createdCollectionAutomatically": false, "ok": 1.0}
        }
        "insert" => {
            let docs: Vec<Document> = body.get_array("documents").map(|a| a.iter().filter_map(|b| b.as_document().cloned()).collect()).unwrap_or_default();
            let mut n = 0i32;
            let mut errs: Vec<Bson> = Vec::new();
            for (i, mut d) in docs.into_iter().enumerate() {
                let dup = st.unique.iter().filter(|(c, _)| *c == coll).any(|(_, f)| {
                    let v = d.get(f).cloned();
                    st.colls.get(&coll).map(|c| c.iter().any(|x| x.get(f).cloned() == v)).unwrap_or(false)
                });
                if dup {
                    errs.push(Bson::Document(doc! {"index": i as i32, "code": 11000i32, "errmsg": "E11000 duplicate key error"}));
                    continue;
                }
                if !d.contains_key("_id") {
                    st.oid += 1;
                    let mut b = [0u8; 12];
                    b[8..12].copy_from_slice(&st.oid.to_be_bytes());
                    let mut d2 = doc! {"_id": bson::oid::ObjectId::from_bytes(b)};
                    d2.extend(d);
                    d = d2;
                }
                st.colls.entry(coll.clone()).or_default().push(d);
                n += 1;
            }
            entry["n"] = serde_json::json!(n);
            let mut r = doc! {"n": n, "ok": 1.0};
            if !errs.is_empty() {
                r.insert("writeErrors", errs);
            }
            r
        }
        "find" => {
            let filter = body.get_document("filter").cloned().unwrap_or_default();
            let limit = body.get_i64("limit").or_else(|_| body.get_i32("limit").map(|x| x as i64)).unwrap_or(0);
            let mut out: Vec<Bson> = st.colls.get(&coll).map(|c| c.iter().filter(|d| matches(d, &filter)).map(|d| Bson::Document(d.clone())).collect()).unwrap_or_default();
            if limit > 0 && out.len() as i64 > limit {
                out.truncate(limit as usize);
            }
            entry["filter"] = to_json(&filter);
            entry["n"] = serde_json::json!(out.len());
            entry["ids"] = serde_json::json!(out.iter().filter_map(|d| d.as_document().and_then(|d| d.get("_id")).map(|i| i.to_string())).collect::<Vec<_>>());
            doc! {"cursor": {"firstBatch": out, "id": 0i64, "ns": coll.clone()}, "ok": 1.0}
        }
        "update" => {
            let ups: Vec<Document> = body.get_array("updates").map(|a| a.iter().filter_map(|b| b.as_document().cloned()).collect()).unwrap_or_default();
            let (mut n, mut nmod) = (0i32, 0i32);
            let mut ids = Vec::new();
            let mut errs: Vec<Bson> = Vec::new();
            let uniq_fields: Vec<String> = st.unique.iter().filter(|(c, _)| *c == coll).map(|(_, f)| f.clone()).collect();
            for (ui, u) in ups.into_iter().enumerate() {
                let q = u.get_document("q").cloned().unwrap_or_default();
                let multi = u.get_bool("multi").unwrap_or(false);
                let upd = u.get_document("u").cloned().unwrap_or_default();
                entry["filter"] = to_json(&q);
                entry["update_keys"] = serde_json::json!(upd.get_document("$set").map(|s| s.keys().cloned().collect::<Vec<_>>()).unwrap_or_else(|_| vec!["<replacement>".to_string()]));
                if let Some(c) = st.colls.get_mut(&coll) {
                    for di in 0..c.len() {
                        if !matches(&c[di], &q) {
                            continue;
                        }
                        // a unique index holds for updates and replacements like for inserts: the write is refused (E11000)
                        // when it would give this document a value another document already has
                        let mut after = c[di].clone();
                        if let Ok(set) = upd.get_document("$set") {
                            for (k, v) in set {
                                set_path(&mut after, k, v.clone());
                            }
                        } else {
                            let mut nd = Document::new();
                            if let Some(id) = c[di].get("_id").cloned() {
                                nd.insert("_id", id);
                            }
                            nd.extend(upd.clone());
                            after = nd;
                        }
                        let clash = uniq_fields.iter().any(|f| {
                            let v = after.get(f).cloned();
                            v.is_some() && c.iter().enumerate().any(|(j, x)| j != di && x.get(f).cloned() == v)
                        });
                        if clash {
                            errs.push(Bson::Document(doc! {"index": ui as i32, "code": 11000i32, "errmsg": "E11000 duplicate key error"}));
                            break;
                        }
                        let d = &mut c[di];
                        n += 1;
                        let before = d.clone();
                        if let Ok(set) = upd.get_document("$set") {
                            for (k, v) in set {
                                set_path(d, k, v.clone());
                            }
                        } else {
                            let id = d.get("_id").cloned();
                            let mut nd = Document::new();
                            if let Some(id) = id {
                                nd.insert("_id", id);
                            }
                            nd.extend(upd.clone());
                            *d = nd;
                        }
                        if *d != before {
                            nmod += 1;
                        }
                        ids.push(d.get("_id").map(|i| i.to_string()).unwrap_or_default());
                        if !multi {
                            break;
                        }
                    }
                }
            }
            entry["n"] = serde_json::json!(n);
            entry["ids"] = serde_json::json!(ids);
            let mut r = doc! {"n": n, "nModified": nmod, "ok": 1.0};
            if !errs.is_empty() {
                r.insert("writeErrors", errs);
            }
            r
        }
        "delete" => {
            let dels: Vec<Document> = body.get_array("deletes").map(|a| a.iter().filter_map(|b| b.as_document().cloned()).collect()).unwrap_or_default();
            let mut n = 0i32;
            let mut ids = Vec::new();
            for d in dels {
                let q = d.get_document("q").cloned().unwrap_or_default();
                let limit = d.get_i32("limit").unwrap_or(0);
                entry["filter"] = to_json(&q);
                if let Some(c) = st.colls.get_mut(&coll) {
                    let mut kept = Vec::new();
                    for x in c.drain(..) {
                        if matches(&x, &q) && (limit == 0 || n < limit) {
                            n += 1;
                            ids.push(x.get("_id").map(|i| i.to_string()).unwrap_or_default());
                        } else {
                            kept.push(x);
                        }
                    }
                    *c = kept;
                }
            }
            entry["n"] = serde_json::json!(n);
            entry["ids"] = serde_json::json!(ids);
            doc! {"n": n, "ok": 1.0}
        }
        other => {
            st.unknown.push(other.to_string());
            doc! {"ok": 0.0, "errmsg": format!("no such command: '{}'", other), "code": 59i32, "codeName": "CommandNotFound"}
        }
    };
    (reply, entry)
}

fn is_data_cmd(name: &str) -> bool {
    matches!(name, "insert" | "find" | "update" | "delete")
}

/// park the command if an armed hold matches; blocks until released
fn maybe_hold(sh: &Shared, conn: u64, body: &Document) {
    let (name, val) = body.iter().next().map(|(k, v)| (k.clone(), v.clone())).unwrap_or_default();
    if !is_data_cmd(&name) {
        return;
    }
    let coll = val.as_str().unwrap_or("").to_string();
    let (lock, cv) = &**sh;
    let mut st = lock.lock().unwrap();
    let js = to_json(body).to_string();
    let mut which = None;
    for h in st.holds.iter_mut() {
        if h.remaining > 0 && (h.cmd == name || h.cmd == "*") && (h.coll.is_empty() || h.coll == coll) && (h.contains.is_empty() || js.contains(&h.contains)) {
            if h.skip > 0 {
                h.skip -= 1;
                continue;
            }
            h.remaining -= 1;
            which = Some(h.id);
            break;
        }
    }
    if let Some(hid) = which {
        st.next_hold += 1;
        let id = st.next_hold;
        let short: String = js.chars().take(300).collect();
        st.held.push(HeldCmd { id, hold: hid, released: false, desc: serde_json::json!({"id": id, "hold": hid, "conn": conn, "cmd": name, "coll": coll, "body": short}) });
        cv.notify_all();
        loop {
            if st.held.iter().any(|h| h.id == id && h.released) {
                st.held.retain(|h| h.id != id);
                break;
            }
            st = cv.wait(st).unwrap();
        }
    }
}

fn handle_data(mut s: TcpStream, sh: Shared, conn: u64) {
    let _ = s.set_nodelay(true);
    loop {
        let mut hdr = [0u8; 16];
        if s.read_exact(&mut hdr).is_err() {
            return;
        }
        let len = i32::from_le_bytes(hdr[0..4].try_into().unwrap()) as usize;
        let req_id = i32::from_le_bytes(hdr[4..8].try_into().unwrap());
        let opcode = i32::from_le_bytes(hdr[12..16].try_into().unwrap());
        let mut buf = vec![0u8; len - 16];
        if s.read_exact(&mut buf).is_err() {
            return;
        }
        let mut body = Document::new();
        if opcode == 2013 {
            let mut pos = 4; // flagBits
            while pos < buf.len() {
                let kind = buf[pos];
                pos += 1;
                if kind == 0 {
                    let d = read_doc(&buf, &mut pos);
                    // the command document comes first
                    let mut nb = d;
                    nb.extend(body.clone());
                    body = nb;
                } else if kind == 1 {
                    let size = i32::from_le_bytes(buf[pos..pos + 4].try_into().unwrap()) as usize;
                    let end = pos + size;
                    pos += 4;
                    let ident = read_cstring(&buf, &mut pos);
                    let mut docs = Vec::new();
                    while pos < end {
                        docs.push(Bson::Document(read_doc(&buf, &mut pos)));
                    }
                    body.insert(ident, docs);
                } else {
                    break;
                }
            }
        } else if opcode == 2004 {
            let mut pos = 4;
            let _ns = read_cstring(&buf, &mut pos);
            pos += 8;
            body = read_doc(&buf, &mut pos);
        } else {
            return;
        }
        maybe_hold(&sh, conn, &body);
        let reply = {
            let (lock, _) = &*sh;
            let mut st = lock.lock().unwrap();
            let (reply, entry) = apply(&mut st, conn, &body);
            let name = entry["cmd"].as_str().unwrap_or("").to_string();
            if is_data_cmd(&name) || name == "createIndexes" {
                st.log.push(entry);
            }
            reply
        };
        let mut rb = Vec::new();
        reply.to_writer(&mut rb).unwrap();
        let mut out = Vec::new();
        if opcode == 2013 {
            let total = 16 + 4 + 1 + rb.len();
            out.extend_from_slice(&(total as i32).to_le_bytes());
            out.extend_from_slice(&(req_id.wrapping_add(100000)).to_le_bytes());
            out.extend_from_slice(&req_id.to_le_bytes());
            out.extend_from_slice(&2013i32.to_le_bytes());
            out.extend_from_slice(&0u32.to_le_bytes());
            out.push(0);
            out.extend_from_slice(&rb);
        } else {
            let total = 16 + 20 + rb.len();
            out.extend_from_slice(&(total as i32).to_le_bytes());
            out.extend_from_slice(&(req_id.wrapping_add(100000)).to_le_bytes());
            out.extend_from_slice(&req_id.to_le_bytes());
            out.extend_from_slice(&1i32.to_le_bytes());
            out.extend_from_slice(&8i32.to_le_bytes()); // AwaitCapable
            out.extend_from_slice(&0i64.to_le_bytes());
            out.extend_from_slice(&0i32.to_le_bytes());
            out.extend_from_slice(&1i32.to_le_bytes());
            out.extend_from_slice(&rb);
        }
        if s.write_all(&out).is_err() {
            return;
        }
    }
}

fn handle_ctrl(s: TcpStream, sh: Shared) {
    let mut w = s.try_clone().unwrap();
    let r = BufReader::new(s);
    for line in r.lines() {
        let line = match line {
            Ok(l) => l,
            Err(_) => return,
        };
        let v: serde_json::Value = serde_json::from_str(&line).unwrap_or(serde_json::json!({}));
        let (lock, cv) = &*sh;
        let resp = match v["cmd"].as_str().unwrap_or("") {
            "reset" => {
                let mut st = lock.lock().unwrap();
                st.colls.clear();
                st.log.clear();
                st.holds.clear();
                for h in st.held.iter_mut() {
                    h.released = true;
                }
                cv.notify_all();
                serde_json::json!({"ok": true})
            }
            "dump" => {
                let st = lock.lock().unwrap();
                let mut m = serde_json::Map::new();
                for (k, docs) in st.colls.iter() {
                    m.insert(k.clone(), serde_json::Value::Array(docs.iter().map(to_json).collect()));
                }
                serde_json::json!({"ok": true, "db": m, "unknown": st.unknown})
            }
            "log" => {
                let mut st = lock.lock().unwrap();
                let l: Vec<serde_json::Value> = st.log.drain(..).collect();
                serde_json::json!({"ok": true, "log": l})
            }
            "hold" => {
                let mut st = lock.lock().unwrap();
                st.next_hold += 1;
                let id = st.next_hold;
                st.holds.push(Hold {
                    id,
                    cmd: v["match"]["cmd"].as_str().unwrap_or("").to_string(),
                    coll: v["match"]["coll"].as_str().unwrap_or("").to_string(),
                    contains: v["match"]["contains"].as_str().unwrap_or("").to_string(),
                    remaining: v["count"].as_u64().unwrap_or(1) as u32,
                    skip: v["match"]["skip"].as_u64().unwrap_or(0) as u32,
                });
                serde_json::json!({"ok": true, "hold": id})
            }
            "held" => {
                // optionally wait until at least one command is parked for the given hold
                let hid = v["hold"].as_u64();
                let wait_ms = v["wait_ms"].as_u64().unwrap_or(0);
                let deadline = std::time::Instant::now() + std::time::Duration::from_millis(wait_ms);
                let mut st = lock.lock().unwrap();
                loop {
                    let any = st.held.iter().any(|h| !h.released && hid.map(|x| x == h.hold).unwrap_or(true));
                    let now = std::time::Instant::now();
                    if any || now >= deadline {
                        break;
                    }
                    let (g, _) = cv.wait_timeout(st, deadline - now).unwrap();
                    st = g;
                }
                serde_json::json!({"ok": true, "held": st.held.iter().filter(|h| !h.released).map(|h| h.desc.clone()).collect::<Vec<_>>()})
            }
            "release" => {
                let mut st = lock.lock().unwrap();
                let id = v["id"].as_u64();
                let mut n = 0;
                for h in st.held.iter_mut() {
                    if id.map(|x| x == h.id || x == h.hold).unwrap_or(true) {
                        h.released = true;
                        n += 1;
                    }
                }
                // disarm the pattern too
                if let Some(x) = id {
                    st.holds.retain(|h| h.id != x);
                } else {
                    st.holds.clear();
                }
                cv.notify_all();
                serde_json::json!({"ok": true, "released": n})
            }
            "quit" => {
                let _ = writeln!(w, "{}", serde_json::json!({"ok": true}));
                std::process::exit(0);
            }
            _ => serde_json::json!({"ok": false, "error": "unknown control command"}),
        };
        if writeln!(w, "{}", resp).is_err() {
            return;
        }
    }
}

fn main() {
    let args: Vec<String> = std::env::args().collect();
    let data_port: u16 = args.get(1).and_then(|s| s.parse().ok()).unwrap_or(27017);
    let ctrl_port: u16 = args.get(2).and_then(|s| s.parse().ok()).unwrap_or(27018);
    let sh: Shared = Arc::new((Mutex::new(State::default()), Condvar::new()));
    let dl = TcpListener::bind(("127.0.0.1", data_port)).expect("bind data port");
    let cl = TcpListener::bind(("127.0.0.1", ctrl_port)).expect("bind control port");
    println!("mongostub listening data={} ctrl={}", data_port, ctrl_port);
    let sh2 = sh.clone();
    std::thread::spawn(move || {
        for s in cl.incoming().flatten() {
            let sh3 = sh2.clone();
            std::thread::spawn(move || handle_ctrl(s, sh3));
        }
    });
    let mut conn = 0u64;
    for s in dl.incoming().flatten() {
        conn += 1;
        let sh3 = sh.clone();
        let c = conn;
        std::thread::spawn(move || handle_data(s, sh3, c));
    }
}
