//! C15 (and the CLI part of C14): the real `adf-bdd` binary on generated files, every library mode, sorting flag,
//! semantics flag combinations and heuristics; stdout is tokenised (value, label) - nothing is judged here.
use crate::gen::*;
use crate::syntax::*;
use crate::util::*;
use rand::rngs::StdRng;
use rand::{Rng, SeedableRng};
use serde_json::{json, Value};
use std::io::Write;
use std::sync::atomic::{AtomicUsize, Ordering};
use std::sync::{Arc, Mutex};

const FLAGS: [&str; 10] = ["grd", "com", "stm", "stmpre", "stmrew", "stmrew2", "stmca", "stmcb", "stmng", "twoval"];
const CLI_BUDGET_S: u64 = 180;
const HEUS: [&str; 4] = ["Simple", "MinModMinPathsMaxVarImp", "MinModMaxVarImpMinPaths", "Rand"];

#[derive(Clone)]
struct Job {
    id: String,
    kind: &'static str,
    text: String,
    lib: &'static str,
    sort: &'static str,
    flags: Vec<&'static str>,
    heu: Option<&'static str>,
    labels: Vec<String>,
    asts: Vec<Ast>,
    blocks: Vec<Vec<usize>>,  // claimed decomposition of a composed framework (declaration positions); empty otherwise
    observers: Vec<usize>,
}

fn tokenise(line: &str) -> Value {
    // "T(a) F(b c) u(d) " -> [["T",[97]],["F",[98,32,99]],["u",[100]]]
    let mut toks = Vec::new();
    for piece in line.split(") ") {
        if piece.is_empty() {
            continue;
        }
        let mut ch = piece.chars();
        let v = ch.next().map(|c| c.to_string()).unwrap_or_default();
        let open = ch.next();
        let label: String = ch.collect();
        if open != Some('(') {
            toks.push(json!(["?", cps(piece)]));
        } else {
            toks.push(json!([v, cps(&label)]));
        }
    }
    Value::Array(toks)
}

fn run_job(cli: &str, work: &str, j: &Job) -> Value {
    let path = format!("{}/cli_{}.adf", work, j.id);
    std::fs::write(&path, &j.text).unwrap();
    let mut args: Vec<String> = vec![path.clone(), "--lib".into(), j.lib.into()];
    match j.sort {
        "lx" => args.push("--lx".into()),
        "an" => args.push("--an".into()),
        _ => {}
    }
    for f in &j.flags {
        args.push(format!("--{}", f));
    }
    if let Some(h) = j.heu {
        args.push("--heu".into());
        args.push(h.into());
    }
    if j.kind == "cli_counter" {
        args.push("--counter".into());
        args.push("nai".into());
    }
    // a launch that does not come back is an answer too (exit -98): stdout / stderr go to files so that nothing can block on a pipe
    let (so, se) = (format!("{}.out", path), format!("{}.err", path));
    let spawned = std::process::Command::new(cli).args(&args).env_remove("RUST_LOG").env("RUST_BACKTRACE", "0")
        .stdout(std::fs::File::create(&so).unwrap()).stderr(std::fs::File::create(&se).unwrap()).spawn();
    let exit = match spawned {
        Ok(mut child) => {
            let t0 = std::time::Instant::now();
            loop {
                match child.try_wait() {
                    Ok(Some(st)) => break st.code().unwrap_or(-1),
                    Ok(None) if t0.elapsed().as_secs() > CLI_BUDGET_S => {
                        let _ = child.kill();
                        let _ = child.wait();
                        break -98;
                    }
                    Ok(None) => std::thread::sleep(std::time::Duration::from_millis(4)),
                    Err(_) => break -97,
                }
            }
        }
        Err(_) => -99,
    };
    let stdout = String::from_utf8_lossy(&std::fs::read(&so).unwrap_or_default()).to_string();
    let stderr = String::from_utf8_lossy(&std::fs::read(&se).unwrap_or_default()).to_string();
    let _ = std::fs::remove_file(&path);
    let _ = std::fs::remove_file(&so);
    let _ = std::fs::remove_file(&se);
    let raw: Vec<&str> = stdout.lines().collect();
    // --counter nai prints one "ModelCounts { cmodels: x, models: y } " per statement on the first line
    let counts: Vec<Value> = if j.kind == "cli_counter" {
        raw.first().map(|l| l.split("ModelCounts").skip(1).map(|piece| {
            let num = |key: &str| -> Value {
                piece.split(key).nth(1).map(|r| r.trim_start().chars().take_while(|c| c.is_ascii_digit()).collect::<String>())
                    .and_then(|d| d.parse::<u64>().ok()).map(|x| json!(x)).unwrap_or(json!(-1))
            };
            json!([num("cmodels:"), num(", models:")])
        }).collect()).unwrap_or_default()
    } else {
        vec![]
    };
    let opchars = j.labels.iter().any(|l| l.chars().any(|c| "!&|^=<>()?:".contains(c)));
    json!({"kind": j.kind, "id": j.id, "lib": j.lib, "sort": j.sort, "flags": j.flags, "heu": j.heu.unwrap_or("-"), "n": j.labels.len(),
           "labels": j.labels.iter().map(|l| cps(l)).collect::<Vec<_>>(), "asts": j.asts.iter().map(|a| a.to_json_idx()).collect::<Vec<_>>(),
           "exit": exit, "lines": raw.iter().map(|l| tokenise(l)).collect::<Vec<_>>(), "raw": raw, "text": j.text, "cp": cps(&j.text),
           "opchars": opchars, "stderr_tail": stderr.chars().rev().take(160).collect::<String>().chars().rev().collect::<String>(),
           "argv": args[1..].to_vec(), "counts": counts,
           "blocks": j.blocks.iter().map(|b| b.iter().map(|x| x + 1).collect::<Vec<_>>()).collect::<Vec<_>>(),
           "observers": j.observers.iter().map(|x| x + 1).collect::<Vec<_>>()})
}

fn sha(path: &str) -> String {
    // tiny content fingerprint (length + FNV) - only equality matters
    let b = std::fs::read(path).unwrap_or_default();
    let mut h: u64 = 0xcbf29ce484222325;
    for x in &b {
        h ^= *x as u64;
        h = h.wrapping_mul(0x100000001b3);
    }
    format!("{}:{:x}", b.len(), h)
}

/// C14 on the CLI, in a private directory: --export, --import of the exported file, then further exports of a DIFFERENT adf
/// onto the existing file and onto sibling names (no extension, another extension). No file that existed before an export
/// may change, whatever name is typed.
fn persist_job(cli: &str, work: &str, id: &str, text: &str) -> Value {
    let dir = format!("{}/pers_{}", work, id);
    let _ = std::fs::remove_dir_all(&dir);
    std::fs::create_dir_all(&dir).unwrap();
    let src = format!("{}/a.adf", dir);
    let src2 = format!("{}/b.adf", dir);
    std::fs::write(&src, text).unwrap();
    std::fs::write(&src2, "s(zz).s(yy).ac(zz,c(v)).ac(yy,neg(zz)).").unwrap();
    let run = |args: &[&str]| -> (i32, Vec<String>) {
        match std::process::Command::new(cli).args(args).env_remove("RUST_LOG").env("RUST_BACKTRACE", "0").output() {
            Ok(o) => (o.status.code().unwrap_or(-1), String::from_utf8_lossy(&o.stdout).lines().map(|s| s.to_string()).collect()),
            Err(_) => (-99, vec![]),
        }
    };
    let snapshot = |dir: &str| -> std::collections::BTreeMap<String, String> {
        let mut m = std::collections::BTreeMap::new();
        if let Ok(rd) = std::fs::read_dir(dir) {
            for e in rd.flatten() {
                let p = e.path();
                if p.is_file() {
                    m.insert(p.file_name().unwrap().to_string_lossy().to_string(), sha(&p.to_string_lossy()));
                }
            }
        }
        m
    };
    let sem = ["--grd", "--com", "--stm", "--stmng"];
    let exp = format!("{}/state.json", dir);
    let mut a1 = vec![src.as_str(), "--lib", "naive", "--export", exp.as_str()];
    a1.extend_from_slice(&sem);
    let (e1, o1) = run(&a1);
    let h1 = sha(&exp);
    let mut a2 = vec![exp.as_str(), "--lib", "naive", "--import"];
    a2.extend_from_slice(&sem);
    let (e2, o2) = run(&a2);
    // later exports from another adf: onto the same name, and onto sibling names
    let mut changed: Vec<String> = Vec::new();
    let mut reexport_exit = 0;
    for name in ["state.json", "state", "state.v2", "state.json.bak"] {
        let before = snapshot(&dir);
        let target = format!("{}/{}", dir, name);
        let (e3, _) = run(&[src2.as_str(), "--lib", "naive", "--export", target.as_str(), "--grd"]);
        if name == "state.json" {
            reexport_exit = e3;
        }
        let after = snapshot(&dir);
        for (f, h) in before.iter() {
            if after.get(f) != Some(h) {
                changed.push(format!("{} (while exporting to {})", f, name));
            }
        }
    }
    let h2 = sha(&exp);
    let _ = std::fs::remove_dir_all(&dir);
    json!({"kind": "cli_persist", "id": id, "text": text, "export_exit": e1, "export_out": o1, "import_exit": e2, "import_out": o2,
           "reexport_exit": reexport_exit, "hash_before": h1, "hash_after": h2, "changed_existing": changed})
}

/// a whole session in one directory, step by step against CliFs!FsAfter: random invocations (plain / --import, with or
/// without --export) over two ADF sources, names that do not exist yet, names that do (an earlier export, a source file
/// itself, a file that is neither) - after every invocation the directory is fingerprinted
fn fs_session(rng: &mut StdRng, cli: &str, work: &str, id: &str) -> Value {
    let dir = format!("{}/fs_{}", work, id);
    let _ = std::fs::remove_dir_all(&dir);
    std::fs::create_dir_all(&dir).unwrap();
    let (na, nb) = (rng.gen_range(1..=4), rng.gen_range(1..=4));
    let ta = rand_adf(rng, na, format!("{}a", id)).text();
    let tb = rand_adf(rng, nb, format!("{}b", id)).text();
    std::fs::write(format!("{}/a.adf", dir), &ta).unwrap();
    std::fs::write(format!("{}/b.adf", dir), &tb).unwrap();
    std::fs::write(format!("{}/note.txt", dir), "not an adf, not a state\n").unwrap();
    // bystanders next to the names exports will go to: whatever scratch / backup name an implementation may derive from the
    // requested path, a file that already lives there is not the CLI's to touch
    for (k, by) in ["s1.tmp", "s1.bak", "s1.part", "s1.new", "s1.old", "s1.json~", "s1.json.tmp", ".s1.json.swp", "s2.tmp", "s2.json.tmp", "s2.bak", "s1.json.lock"].iter().enumerate() {
        if rng.gen_range(0..3) > 0 {
            std::fs::write(format!("{}/{}", dir, by), format!("bystander {}\n", k)).unwrap();
        }
    }
    let run = |args: &[String]| -> (i32, Vec<String>) {
        match std::process::Command::new(cli).args(args).current_dir(&dir).env_remove("RUST_LOG").env("RUST_BACKTRACE", "0").output() {
            Ok(o) => (o.status.code().unwrap_or(-1), String::from_utf8_lossy(&o.stdout).lines().map(|s| s.to_string()).collect()),
            Err(_) => (-99, vec![]),
        }
    };
    let snapshot = |dir: &str| -> Value {
        let mut m = serde_json::Map::new();
        if let Ok(rd) = std::fs::read_dir(dir) {
            let mut names: Vec<_> = rd.flatten().map(|e| e.path()).filter(|p| p.is_file()).collect();
            names.sort();
            for p in names {
                m.insert(p.file_name().unwrap().to_string_lossy().to_string(), json!(sha(&p.to_string_lossy())));
            }
        }
        Value::Object(m)
    };
    let sem = ["--grd", "--com", "--stm"];
    // reference answers of the two sources
    let mut refs = serde_json::Map::new();
    for src in ["a.adf", "b.adf"] {
        let mut a: Vec<String> = vec![src.into(), "--lib".into(), "naive".into()];
        a.extend(sem.iter().map(|x| x.to_string()));
        refs.insert(src.to_string(), json!(run(&a).1));
    }
    let init = snapshot(&dir);
    let names = ["s1.json", "s2.json", "s1", "s1.json.bak", "note.txt", "a.adf", "b.adf", "s1.tmp", "s2"];
    let mut steps: Vec<Value> = Vec::new();
    for _ in 0..rng.gen_range(4..=8) {
        let existing: Vec<String> = std::fs::read_dir(&dir).map(|rd| rd.flatten().map(|e| e.file_name().to_string_lossy().to_string()).collect()).unwrap_or_default();
        let imp = rng.gen_bool(0.4);
        let src: String = if imp {
            // mostly an exported state if there is one, sometimes something that is not
            let exports: Vec<&String> = existing.iter().filter(|n| !["a.adf", "b.adf", "note.txt"].contains(&n.as_str())).collect();
            if !exports.is_empty() && rng.gen_range(0..10) < 8 { exports[rng.gen_range(0..exports.len())].clone() } else { names[rng.gen_range(0..names.len())].to_string() }
        } else {
            ["a.adf", "b.adf"][rng.gen_range(0..2)].to_string()
        };
        let exp: String = if rng.gen_range(0..10) < 7 { names[rng.gen_range(0..names.len())].to_string() } else { String::new() };
        let mut a: Vec<String> = vec![src.clone(), "--lib".into(), "naive".into()];
        if imp {
            a.push("--import".into());
        }
        if !exp.is_empty() {
            a.push("--export".into());
            a.push(exp.clone());
        }
        a.extend(sem.iter().map(|x| x.to_string()));
        let (exit, out) = run(&a);
        steps.push(json!({"src": src, "imp": imp, "exp": exp, "exit": exit, "out": out, "fs": snapshot(&dir)}));
    }
    let _ = std::fs::remove_dir_all(&dir);
    json!({"kind": "cli_fs", "id": id, "texts": {"a.adf": ta, "b.adf": tb}, "refs": Value::Object(refs), "init": init, "steps": steps})
}

pub fn main(args: &[String]) {
    let mut tier = "quick".to_string();
    let mut out = String::new();
    let mut cli = String::new();
    let mut work = "/tmp".to_string();
    let mut i = 0;
    while i < args.len() {
        match args[i].as_str() {
            "--tier" => { tier = args[i + 1].clone(); i += 1 }
            "--out" => { out = args[i + 1].clone(); i += 1 }
            "--cli" => { cli = args[i + 1].clone(); i += 1 }
            "--work" => { work = args[i + 1].clone(); i += 1 }
            _ => {}
        }
        i += 1;
    }
    quiet_panics();
    let mut rng = StdRng::seed_from_u64(env_seed() ^ 0xc11_0015);
    let libs = ["naive", "biodivine", "hybrid"];
    let sorts = ["none", "lx", "an"];
    let mut jobs: Vec<Job> = Vec::new();
    let nadf = if tier == "thorough" { 220 } else if tier == "feat" { 8 } else { 36 };
    let mut flagsets: Vec<Vec<&'static str>> = Vec::new();
    for f in FLAGS { flagsets.push(vec![f]); }
    for a in 0..FLAGS.len() { for b in (a + 1)..FLAGS.len() { flagsets.push(vec![FLAGS[a], FLAGS[b]]); } }
    flagsets.push(FLAGS.to_vec());
    flagsets.push(vec![]);
    let mut fs_i = 0usize;
    for k in 0..nadf {
        let n = rng.gen_range(1..=5);
        let case = rand_adf(&mut rng, n, format!("k{}", k));
        let style = match k % 6 { 0 => LabelStyle::Plain, 1 | 2 => LabelStyle::Keywords, 3 | 4 => LabelStyle::Quoted, _ => LabelStyle::QuotedOps };
        let mut labels = pick_labels(&mut rng, n, style);
        // tokenisation of stdout needs labels without ") "
        for l in labels.iter_mut() { if l.contains(") ") { *l = "q".to_string() + &l.replace(") ", "_"); } }
        let facts = if rng.gen_bool(0.5) { canonical_facts(n) } else { shuffled_facts(&mut rng, n) };
        let lay = if rng.gen_bool(0.5) { plain_layout() } else { rand_layout(&mut rng) };
        // the statements' declaration order is the order of the s() facts: reorder labels/asts accordingly
        let decl: Vec<usize> = facts.iter().filter_map(|f| if let Fact::S(i) = f { Some(*i) } else { None }).collect();
        let text = render(&labels, &case.asts, &facts, &lay);
        let inv: Vec<usize> = { let mut v = vec![0; n]; for (p, b) in decl.iter().enumerate() { v[*b] = p; } v };
        let dl: Vec<String> = decl.iter().map(|b| labels[*b].clone()).collect();
        let da: Vec<Ast> = decl.iter().map(|b| case.asts[*b].map_atoms(&|i| inv[i])).collect();
        let per = if tier == "thorough" { 14 } else { 12 };
        for _ in 0..per {
            let flags = flagsets[fs_i % flagsets.len()].clone();
            fs_i += 1;
            let lib = libs[rng.gen_range(0..3)];
            let sort = sorts[rng.gen_range(0..3)];
            let heu = if flags.contains(&"stmng") || flags.contains(&"twoval") { if rng.gen_bool(0.7) { Some(HEUS[rng.gen_range(0..4)]) } else { None } } else { None };
            jobs.push(Job { id: format!("k{}_{}", k, jobs.len()), kind: "cli", text: text.clone(), lib, sort, flags, heu, labels: dl.clone(), asts: da.clone(), blocks: vec![], observers: vec![] });
        }
        // same flags on all three modes (the modes must print the same sets)
        for lib in libs {
            jobs.push(Job { id: format!("k{}_{}", k, jobs.len()), kind: "cli", text: text.clone(), lib, sort: "none", flags: vec!["grd", "com", "stm"], heu: None, labels: dl.clone(), asts: da.clone(), blocks: vec![], observers: vec![] });
        }
        // C13 at the CLI: --counter nai in the two arms that support it (declaration order, no semantics flag)
        for lib in ["naive", "hybrid"] {
            jobs.push(Job { id: format!("k{}_{}", k, jobs.len()), kind: "cli_counter", text: text.clone(), lib, sort: "none", flags: vec![], heu: None, labels: dl.clone(), asts: da.clone(), blocks: vec![], observers: vec![] });
        }
        // malformed variants of the same file
        for m in 0..2 {
            let bad = if m == 0 { mutate(&mut rng, &text) } else { format!("{}ac({},nosuch).", text, render_label(&labels[0])) };
            let lib = libs[rng.gen_range(0..3)];
            jobs.push(Job { id: format!("k{}_{}", k, jobs.len()), kind: "cli_bad", text: bad, lib, sort: "none", flags: vec!["grd", "com", "stm"], heu: None, labels: vec![], asts: vec![], blocks: vec![], observers: vec![] });
        }
    }
    // many answers through the channel-fed section: ten self-supporting statements have 1024 two-valued models
    if tier != "feat" {
        let n = 10;
        let labels: Vec<String> = (0..n).map(|i| format!("w{}", i)).collect();
        let asts: Vec<Ast> = (0..n).map(Ast::Atom).collect();
        let text = render(&labels, &asts, &canonical_facts(n), &plain_layout());
        jobs.push(Job { id: format!("big_{}", jobs.len()), kind: "cli", text, lib: "hybrid", sort: "none", flags: vec!["twoval"], heu: None, labels, asts, blocks: vec![], observers: vec![] });
    }
    // composed frameworks of 9-14 statements (with --com: 9-10, the complete enumeration visits 3^n candidates in a debug build)
    if tier != "feat" {
        let nbig = if tier == "thorough" { 40 } else { 8 };
        let mut made = 0;
        let mut tries = 0;
        while made < nbig && tries < 400 {
            tries += 1;
            let with_com = made % 2 == 0;
            let (case, blocks, observers) = composed_adf(&mut rng, format!("cb{}", tries), 9, if with_com { 10 } else { 14 });
            let n = case.asts.len();
            // pre-selection by answer size only (the launches print every model): at most 300 lines per section
            let parser = adf_bdd::parser::AdfParser::default();
            let text0 = case.text();
            let parsed_ok = parser.parse()(&text0).is_ok();
            if !parsed_ok { continue; }
            let mut adf = adf_bdd::adf::Adf::from_parser(&parser);
            let (s, r) = crossbeam_channel::unbounded();
            adf.two_val_nogood_channel(adf_bdd::adf::heuristics::Heuristic::Simple, s);
            if r.try_iter().count() > 300 { continue; }
            if with_com && adf.complete().count() > 300 { continue; }
            let labels: Vec<String> = (0..n).map(|i| format!("{}{}", ["x", "St", "q_", "and"][made % 4], i)).collect();
            let facts = if rng.gen_bool(0.5) { canonical_facts(n) } else { shuffled_facts(&mut rng, n) };
            let decl: Vec<usize> = facts.iter().filter_map(|f| if let Fact::S(i) = f { Some(*i) } else { None }).collect();
            let text = render(&labels, &case.asts, &facts, &plain_layout());
            let inv: Vec<usize> = { let mut v = vec![0; n]; for (p, b) in decl.iter().enumerate() { v[*b] = p; } v };
            let dl: Vec<String> = decl.iter().map(|b| labels[*b].clone()).collect();
            let da: Vec<Ast> = decl.iter().map(|b| case.asts[*b].map_atoms(&|i| inv[i])).collect();
            let db: Vec<Vec<usize>> = blocks.iter().map(|b| b.iter().map(|x| inv[*x]).collect()).collect();
            let dob: Vec<usize> = observers.iter().map(|x| inv[*x]).collect();
            let sets: Vec<Vec<&'static str>> = if with_com {
                vec![vec!["grd", "com", "stm"], vec!["com"], vec!["grd", "com", "stmng"]]
            } else {
                vec![vec!["grd", "stm"], vec!["stmca", "stmcb"], vec!["stmng", "twoval"], vec!["grd", "stmpre", "stmrew"], vec!["stmrew2", "twoval"]]
            };
            for (q, flags) in sets.into_iter().enumerate() {
                let lib = libs[(made + q) % 3];
                let sort = sorts[(made / 2 + q) % 3];
                let heu = if flags.contains(&"stmng") || flags.contains(&"twoval") { Some(HEUS[(made + q) % 4]) } else { None };
                jobs.push(Job { id: format!("cb{}_{}", made, jobs.len()), kind: "cli_big", text: text.clone(), lib, sort, flags, heu, labels: dl.clone(), asts: da.clone(),
                                blocks: db.clone(), observers: dob.clone() });
            }
            made += 1;
        }
    }
    let jobs = Arc::new(jobs);
    let next = Arc::new(AtomicUsize::new(0));
    let results: Arc<Mutex<Vec<Option<Value>>>> = Arc::new(Mutex::new(vec![None; jobs.len()]));
    let mut hs = Vec::new();
    for _ in 0..10 {
        let (jobs, next, results, cli, work) = (jobs.clone(), next.clone(), results.clone(), cli.clone(), work.clone());
        hs.push(std::thread::spawn(move || loop {
            let i = next.fetch_add(1, Ordering::SeqCst);
            if i >= jobs.len() { break; }
            let v = run_job(&cli, &work, &jobs[i]);
            results.lock().unwrap()[i] = Some(v);
        }));
    }
    for h in hs { let _ = h.join(); }
    let mut f = std::io::BufWriter::new(std::fs::File::create(&out).expect("cannot create out file"));
    for v in results.lock().unwrap().iter().flatten() {
        writeln!(f, "{}", v).unwrap();
    }
    // C14: export / import / no-overwrite
    let np = if tier == "thorough" { 60 } else if tier == "feat" { 6 } else { 10 };
    for k in 0..np {
        let n = rng.gen_range(1..=5);
        let case = rand_adf(&mut rng, n, format!("p{}", k));
        writeln!(f, "{}", persist_job(&cli, &work, &format!("p{}", k), &case.text())).unwrap();
    }
    // deep frameworks through --export / --import: a constant per statement and one chain over all the others (and / or / xor),
    // 64-70 statements - the repair step and the node bookkeeping meet diagrams deeper than the machine word here
    let ndeep = if tier == "feat" { 1 } else { 3 };
    for k in 0..ndeep {
        let n = [70usize, 66, 64][k % 3];
        let mut asts: Vec<Ast> = (0..n).map(|i| if k % 3 == 1 && i % 2 == 0 { Ast::Bot } else { Ast::Top }).collect();
        let mut chain = Ast::Atom(n - 2);
        for i in (0..n - 2).rev() {
            chain = match k % 3 { 0 => and(Ast::Atom(i), chain), 1 => xor(Ast::Atom(i), chain), _ => or(Ast::Atom(i), chain) };
        }
        asts[n - 1] = chain;
        let case = AdfCase { id: format!("pd{}", k), labels: (0..n).map(|i| format!("x{}", i)).collect(), asts };
        writeln!(f, "{}", persist_job(&cli, &work, &format!("pd{}", k), &case.text())).unwrap();
    }
    let nfs = if tier == "thorough" { 150 } else if tier == "feat" { 10 } else { 30 };
    for k in 0..nfs {
        writeln!(f, "{}", fs_session(&mut rng, &cli, &work, &format!("f{}", k))).unwrap();
    }
    f.flush().unwrap();
    eprintln!("cli: {} launches + {} persistence scenarios + {} directory sessions", jobs.len(), np, nfs);
    std::process::exit(0);
}
