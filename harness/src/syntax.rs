//! Surface syntax generation: labels, layouts, fact orders, mutations; conversion of the parser's own Formula to JSON.
use crate::gen::*;
use adf_bdd::parser::Formula;
use rand::rngs::StdRng;
use rand::Rng;
use serde_json::{json, Value};

pub fn cps(s: &str) -> Value {
    Value::Array(s.chars().map(|c| json!(c as u32)).collect())
}

pub const PLAIN: &[&str] = &["a", "b", "c", "d", "e", "g", "h", "x1", "y", "z9", "st", "Q"];
pub const KEYWORDISH: &[&str] = &["and", "andy", "or", "c", "neg", "s", "ac", "v", "f", "imp", "xor", "iff", "0", "10", "a2", "A", "2", "negx", "orb", "cv", "sac"];
/// labels that need quotes; those with operator characters trip the biodivine variable-name check (known finding F9)
pub const QUOTED_SAFE: &[&str] = &["a b", "p.q", "m,n", "x y z", "1.5", "a_b", "#", "a-b", "s.", "c,v", "\u{e9}t\u{e9}", "\u{65e5}\u{672c}", "\u{df} x", "Z\u{fc}rich"];
pub const QUOTED_OPS: &[&str] = &["x(y", "a&b", "p|q", "!n", "u=v", "i<j", "k>l", "a^b", "q?r", "t:u", "s(", ")("];

pub fn needs_quotes(l: &str) -> bool {
    l.is_empty() || !l.chars().all(|c| c.is_ascii_alphanumeric())
}

pub fn render_label(l: &str) -> String {
    if needs_quotes(l) {
        format!("\"{}\"", l)
    } else {
        l.to_string()
    }
}

#[derive(Clone, Copy, PartialEq, Eq, Debug)]
pub enum LabelStyle {
    Plain,
    Keywords,
    Quoted,    // plain + keywordish + safe quoted
    QuotedOps, // also operator characters
}

pub fn pick_labels(rng: &mut StdRng, n: usize, style: LabelStyle) -> Vec<String> {
    let mut pool: Vec<&str> = PLAIN.to_vec();
    if style != LabelStyle::Plain {
        pool.extend_from_slice(KEYWORDISH);
    }
    if style == LabelStyle::Quoted || style == LabelStyle::QuotedOps {
        pool.extend_from_slice(QUOTED_SAFE);
    }
    if style == LabelStyle::QuotedOps {
        pool.extend_from_slice(QUOTED_OPS);
    }
    let mut out: Vec<String> = Vec::new();
    if style == LabelStyle::QuotedOps {
        // at least one label with an operator character
        out.push(QUOTED_OPS[rng.gen_range(0..QUOTED_OPS.len())].to_string());
    }
    while out.len() < n {
        let l = pool[rng.gen_range(0..pool.len())].to_string();
        if !out.contains(&l) {
            out.push(l);
        }
    }
    out
}

#[derive(Clone, Debug)]
pub struct Layout {
    pub after_dot: Vec<&'static str>,
    pub comma: Vec<(&'static str, &'static str)>,
}

pub fn rand_layout(rng: &mut StdRng) -> Layout {
    let dots = ["", "", " ", "\n", "\t ", "\r\n", "  \n"];
    let commas = [("", ""), ("", ""), (" ", ""), ("", " "), (" ", " "), ("  ", "\n")];
    Layout {
        after_dot: (0..8).map(|_| dots[rng.gen_range(0..dots.len())]).collect(),
        comma: (0..8).map(|_| commas[rng.gen_range(0..commas.len())]).collect(),
    }
}

pub fn plain_layout() -> Layout {
    Layout { after_dot: vec![""], comma: vec![("", "")] }
}

fn fmt_formula(a: &Ast, labels: &[String], lay: &Layout, k: &mut usize) -> String {
    let comma = |k: &mut usize| -> String {
        let (x, y) = lay.comma[*k % lay.comma.len()];
        *k += 1;
        format!("{},{}", x, y)
    };
    match a {
        Ast::Top => "c(v)".into(),
        Ast::Bot => "c(f)".into(),
        Ast::Atom(i) => render_label(&labels[*i]),
        Ast::Not(x) => format!("neg({})", fmt_formula(x, labels, lay, k)),
        Ast::And(x, y) | Ast::Or(x, y) | Ast::Imp(x, y) | Ast::Iff(x, y) | Ast::Xor(x, y) => {
            let name = match a {
                Ast::And(..) => "and",
                Ast::Or(..) => "or",
                Ast::Imp(..) => "imp",
                Ast::Iff(..) => "iff",
                _ => "xor",
            };
            let l = fmt_formula(x, labels, lay, k);
            let c = comma(k);
            let r = fmt_formula(y, labels, lay, k);
            format!("{}({}{}{})", name, l, c, r)
        }
    }
}

/// facts in the given order: Fact::S(i) or Fact::Ac(i)
#[derive(Clone, Copy, Debug, PartialEq, Eq)]
pub enum Fact {
    S(usize),
    Ac(usize),
}

pub fn canonical_facts(n: usize) -> Vec<Fact> {
    (0..n).map(Fact::S).chain((0..n).map(Fact::Ac)).collect()
}

pub fn shuffled_facts(rng: &mut StdRng, n: usize) -> Vec<Fact> {
    let mut f = canonical_facts(n);
    for i in (1..f.len()).rev() {
        let j = rng.gen_range(0..=i);
        f.swap(i, j);
    }
    f
}

pub fn render(labels: &[String], asts: &[Ast], facts: &[Fact], lay: &Layout) -> String {
    let mut s = String::new();
    let mut k = 0usize;
    for (fi, f) in facts.iter().enumerate() {
        match f {
            Fact::S(i) => s.push_str(&format!("s({}).", render_label(&labels[*i]))),
            Fact::Ac(i) => {
                let (x, y) = lay.comma[k % lay.comma.len()];
                k += 1;
                s.push_str(&format!("ac({}{},{}{}).", render_label(&labels[*i]), x, y, fmt_formula(&asts[*i], labels, lay, &mut k)));
            }
        }
        s.push_str(lay.after_dot[fi % lay.after_dot.len()]);
    }
    s
}

/// definitely-suspicious mutations of a well-formed text (TLC classifies them itself)
pub fn mutate(rng: &mut StdRng, text: &str) -> String {
    let chars: Vec<char> = text.chars().collect();
    let pos_of = |rng: &mut StdRng, pred: &dyn Fn(char) -> bool| -> Option<usize> {
        let idx: Vec<usize> = chars.iter().enumerate().filter(|(_, c)| pred(**c)).map(|(i, _)| i).collect();
        if idx.is_empty() { None } else { Some(idx[rng.gen_range(0..idx.len())]) }
    };
    let mut out: Vec<char> = chars.clone();
    match rng.gen_range(0..10) {
        0 => {
            if let Some(i) = pos_of(rng, &|c| c == '(' || c == ')') { out.remove(i); }
        }
        1 => {
            let i = rng.gen_range(0..=out.len());
            out.insert(i, if rng.gen_bool(0.5) { '(' } else { ')' });
        }
        2 => {
            if let Some(i) = pos_of(rng, &|c| c == '.') { out.remove(i); }
        }
        3 => {
            // wrong arity: drop a comma and everything up to the next ')' , or add an argument
            if let Some(i) = pos_of(rng, &|c| c == ',') {
                if rng.gen_bool(0.5) {
                    let mut j = i;
                    while j < out.len() && out[j] != ')' { j += 1; }
                    out.drain(i..j);
                } else {
                    out.insert(i, 'z');
                    out.insert(i, ',');
                }
            }
        }
        4 => {
            let g = ["x", "s(a", ")", ".", "ac(a,b)", " foo", "s(q)"][rng.gen_range(0..7)];
            out.extend(g.chars());
        }
        5 => {
            if let Some(i) = pos_of(rng, &|c| c == '"') { out.remove(i); }
        }
        6 => {
            // blank in an undocumented place
            let i = rng.gen_range(0..=out.len());
            out.insert(i, ' ');
        }
        7 => {
            if !out.is_empty() {
                let i = rng.gen_range(0..out.len());
                out[i] = ['_', ';', '(', ')', ',', '.', 'x', ' ', '"'][rng.gen_range(0..9)];
            }
        }
        8 => {
            // unknown connective / misspelt keyword
            let s: String = out.iter().collect();
            let s = if s.contains("and(") { s.replacen("and(", "nand(", 1) } else if s.contains("neg(") { s.replacen("neg(", "not(", 1) } else { s.replacen("ac(", "acc(", 1) };
            out = s.chars().collect();
        }
        _ => {
            if !out.is_empty() {
                let i = rng.gen_range(0..out.len());
                out.truncate(i);
            }
        }
    }
    out.into_iter().collect()
}

/// the parser's own formula as JSON with labelled atoms (code points)
pub fn formula_json(f: &Formula) -> Value {
    match f {
        Formula::Bot => json!(["bot"]),
        Formula::Top => json!(["top"]),
        Formula::Atom(a) => json!(["atom", cps(a)]),
        Formula::Not(x) => json!(["not", formula_json(x)]),
        Formula::And(x, y) => json!(["and", formula_json(x), formula_json(y)]),
        Formula::Or(x, y) => json!(["or", formula_json(x), formula_json(y)]),
        Formula::Imp(x, y) => json!(["imp", formula_json(x), formula_json(y)]),
        Formula::Xor(x, y) => json!(["xor", formula_json(x), formula_json(y)]),
        Formula::Iff(x, y) => json!(["iff", formula_json(x), formula_json(y)]),
    }
}

/// harness AST with labelled atoms (code points), for records whose oracle works on labels
pub fn ast_label_json(a: &Ast, labels: &[String]) -> Value {
    a.to_json(&|i| cps(&labels[i]))
}
