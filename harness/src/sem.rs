//! C01-C05: run every semantics variant of the real library on fresh objects and record the answers.
use crate::gen::*;
use crate::util::*;
use adf_bdd::adf::heuristics::Heuristic;
use adf_bdd::adf::Adf;
use adf_bdd::adfbiodivine::Adf as BdAdf;
use adf_bdd::datatypes::{Term, Var};
use adf_bdd::parser::AdfParser;
use rand::rngs::StdRng;
use rand::{Rng, SeedableRng};
use serde_json::{json, Value};
use std::io::Write;
use std::sync::atomic::{AtomicUsize, Ordering};
use std::sync::{Arc, Mutex};

const CALL_BUDGET_S: u64 = 20;

#[derive(Clone, Copy, PartialEq, Eq, Debug)]
pub enum Backend {
    Native,
    Bio,
    Hybrid,
    HybridNoPre,
    /// the biodivine object built WITH the stable-model rewriting (what `--lib biodivine --stmrew` uses for every section)
    BioRw,
    /// ... and the naive object derived from it (hybrid arm with --stmrew)
    HybridRw,
}
impl Backend {
    pub fn name(&self) -> &'static str {
        match self {
            Backend::Native => "native",
            Backend::Bio => "bio",
            Backend::Hybrid => "hybrid",
            Backend::HybridNoPre => "hybrid_nopre",
            Backend::BioRw => "bio_rw",
            Backend::HybridRw => "hybrid_rw",
        }
    }
}

/// build a naive-representation Adf for the backend (Bio handled separately)
pub fn build_adf(parser: &AdfParser, b: Backend) -> Adf {
    match b {
        Backend::Native => Adf::from_parser(parser),
        Backend::Hybrid => BdAdf::from_parser(parser).hybrid_step(),
        Backend::HybridNoPre => BdAdf::from_parser(parser).hybrid_step_opt(false),
        Backend::HybridRw => BdAdf::from_parser_with_stm_rewrite(parser).hybrid_step(),
        Backend::Bio | Backend::BioRw => unreachable!(),
    }
}

pub struct CallRes {
    pub r: Vec<Vec<Term>>,
    pub ch: &'static str,
    pub names: Vec<String>,
    pub hcalls: usize,
}

fn names_of(adf: &Adf) -> Vec<String> {
    adf.ordering.names().read().unwrap().clone()
}

/// A scripted custom heuristic that always honours the contract: it picks the (rank mod #undecided)-th
/// undecided statement with the scripted value; past the end of the script it cycles.
pub fn scripted_heuristic(
    script: Vec<(usize, bool)>,
    counter: Arc<AtomicUsize>,
    budget: usize,
) -> impl Fn(&Adf, &[Term]) -> Option<(Var, Term)> + Sync + 'static {
    move |_adf: &Adf, interp: &[Term]| {
        let c = counter.fetch_add(1, Ordering::SeqCst);
        if c > budget {
            panic!("heuristic call budget exceeded: {} calls", c);
        }
        let und: Vec<usize> = interp
            .iter()
            .enumerate()
            .filter(|(_, t)| !t.is_truth_value())
            .map(|(i, _)| i)
            .collect();
        if und.is_empty() {
            return None;
        }
        let (rank, val) = if script.is_empty() { (0, true) } else { script[c % script.len()] };
        Some((Var(und[rank % und.len()]), Term::from(val)))
    }
}

/// Enumerate the REAL choice tree of nogood_internal on the real code: every path = one possible history of
/// some contract-abiding heuristic. Returns (runs, distinct answers, max heuristic calls on a path).
pub fn enumerate_tree(text: &str, b: Backend, two_val: bool, max_runs: usize) -> (usize, Vec<Vec<Vec<Term>>>, usize) {
    let parser = AdfParser::default();
    parser.parse()(text).expect("harness text must parse");
    let mut prefix: Vec<usize> = Vec::new();
    let mut runs = 0usize;
    let mut distinct: Vec<Vec<Vec<Term>>> = Vec::new();
    let mut maxcalls = 0usize;
    loop {
        let widths: Arc<Mutex<Vec<usize>>> = Arc::new(Mutex::new(Vec::new()));
        let w2 = widths.clone();
        let pre = prefix.clone();
        let heu = move |_adf: &Adf, interp: &[Term]| -> Option<(Var, Term)> {
            let und: Vec<usize> = interp.iter().enumerate().filter(|(_, t)| !t.is_truth_value()).map(|(i, _)| i).collect();
            if und.is_empty() {
                return None;
            }
            let mut w = w2.lock().unwrap();
            let k = w.len();
            if k > 4000 {
                panic!("heuristic call budget exceeded on one path");
            }
            w.push(und.len() * 2);
            let o = if k < pre.len() { pre[k] } else { 0 };
            Some((Var(und[o / 2]), Term::from(o % 2 == 0)))
        };
        let mut adf = build_adf(&parser, b);
        let res: Vec<Vec<Term>> = if two_val {
            let (s, r) = crossbeam_channel::unbounded();
            adf.two_val_nogood_channel(Heuristic::Custom(&heu), s);
            r.try_iter().collect()
        } else {
            adf.stable_nogood(Heuristic::Custom(&heu)).collect()
        };
        runs += 1;
        if !distinct.contains(&res) {
            distinct.push(res);
        }
        let w = widths.lock().unwrap().clone();
        maxcalls = maxcalls.max(w.len());
        // next path in depth-first order
        let mut path: Vec<usize> = (0..w.len()).map(|i| if i < prefix.len() { prefix[i] } else { 0 }).collect();
        let mut advanced = false;
        while let Some(last) = path.pop() {
            let i = path.len();
            if last + 1 < w[i] {
                path.push(last + 1);
                advanced = true;
                break;
            }
        }
        if !advanced || runs >= max_runs {
            break;
        }
        prefix = path;
    }
    (runs, distinct, maxcalls)
}

#[derive(Clone, Debug)]
pub struct CallSpec {
    pub c: &'static str,
    pub b: Backend,
    pub h: String, // heuristic description
    pub seed: u64,
    pub script: Vec<(usize, bool)>,
}

fn heuristic_by_name<'a>(h: &str) -> Heuristic<'a> {
    match h {
        "Simple" => Heuristic::Simple,
        "MinModMinPathsMaxVarImp" => Heuristic::MinModMinPathsMaxVarImp,
        "MinModMaxVarImpMinPaths" => Heuristic::MinModMaxVarImpMinPaths,
        "Rand" => Heuristic::Rand,
        _ => Heuristic::Simple,
    }
}

fn seed32(seed: u64) -> [u8; 32] {
    let mut s = [0u8; 32];
    for (i, b) in s.iter_mut().enumerate() {
        *b = ((seed >> ((i % 8) * 8)) & 0xff) as u8 ^ (i as u8).wrapping_mul(31);
    }
    s
}

/// execute one call on a fresh object built from `text`
pub fn exec_call(text: &str, cs: &CallSpec, n: usize) -> CallRes {
    let parser = AdfParser::default();
    parser.parse()(text).expect("harness text must parse");
    let mut ch = "na";
    let mut hcalls = 0usize;
    if cs.b == Backend::Bio || cs.b == Backend::BioRw {
        let bio = if cs.c == "rew_pre" || cs.b == Backend::BioRw { BdAdf::from_parser_with_stm_rewrite(&parser) } else { BdAdf::from_parser(&parser) };
        let names = parser.var_container().names().read().unwrap().clone();
        let r: Vec<Vec<Term>> = match cs.c {
            "grounded" => vec![bio.grounded()],
            "complete" => bio.complete().collect(),
            "stable" => bio.stable().collect(),
            "rew" | "rew_pre" => bio.stable_bdd_representation(),
            other => panic!("unsupported bio call {}", other),
        };
        return CallRes { r, ch, names, hcalls };
    }
    let mut adf = build_adf(&parser, cs.b);
    let names = names_of(&adf);
    let r: Vec<Vec<Term>> = match cs.c {
        "grounded" => vec![adf.grounded()],
        "complete" => adf.complete().collect(),
        "stable" => adf.stable().collect(),
        "prefilter" => adf.stable_with_prefilter().collect(),
        "rew" => {
            let bio = BdAdf::from_parser(&parser);
            adf.stable_bdd_representation(&bio)
        }
        "rew_pre" => {
            let bio = BdAdf::from_parser_with_stm_rewrite(&parser);
            adf.stable_bdd_representation(&bio)
        }
        "count_a" => adf.stable_count_optimisation_heu_a().collect(),
        "count_b" => adf.stable_count_optimisation_heu_b().collect(),
        "ng_chan_b" | "twoval_chan_b" => {
            // a bounded (rendezvous / capacity 1) channel with a consumer that starts late and is slow: nothing may be lost,
            // and the consumer's loop must end because the sender is dropped
            let heu = heuristic_by_name(&cs.h);
            let cap = (cs.seed % 2) as usize;
            let (s, r) = crossbeam_channel::bounded::<Vec<Term>>(cap);
            let consumer = std::thread::spawn(move || {
                std::thread::sleep(std::time::Duration::from_millis(15));
                let mut got = Vec::new();
                for m in r.iter() {
                    got.push(m);
                    std::thread::sleep(std::time::Duration::from_millis(2));
                }
                got
            });
            if cs.c == "ng_chan_b" {
                adf.stable_nogood_channel(heu, s);
            } else {
                adf.two_val_nogood_channel(heu, s);
            }
            let got = consumer.join().unwrap_or_default();
            ch = "disconnected";
            got
        }
        "ng" | "ng_chan" | "twoval_chan" => {
            let counter = Arc::new(AtomicUsize::new(0));
            let budget = 4 * 3usize.pow(n as u32) + 16;
            let custom = scripted_heuristic(cs.script.clone(), counter.clone(), budget);
            let heu: Heuristic = if cs.h == "Custom" { Heuristic::Custom(&custom) } else { heuristic_by_name(&cs.h) };
            if cs.h == "Rand" {
                adf.seed(seed32(cs.seed));
            }
            let res = match cs.c {
                "ng" => adf.stable_nogood(heu).collect::<Vec<_>>(),
                _ => {
                    let (s, r) = crossbeam_channel::unbounded();
                    if cs.c == "ng_chan" {
                        adf.stable_nogood_channel(heu, s);
                    } else {
                        adf.two_val_nogood_channel(heu, s);
                    }
                    let got: Vec<Vec<Term>> = r.try_iter().collect();
                    ch = match r.try_recv() {
                        Err(crossbeam_channel::TryRecvError::Disconnected) => "disconnected",
                        Err(crossbeam_channel::TryRecvError::Empty) => "empty",
                        Ok(_) => "late_message",
                    };
                    got
                }
            };
            hcalls = counter.load(Ordering::SeqCst);
            res
        }
        other => panic!("unsupported call {}", other),
    };
    CallRes { r, ch, names, hcalls }
}

pub fn call_specs(props: &[String], rng: &mut StdRng, n: usize, rich: bool) -> Vec<CallSpec> {
    let mut v = Vec::new();
    let all4 = [Backend::Native, Backend::Bio, Backend::Hybrid, Backend::HybridNoPre];
    let naive3 = [Backend::Native, Backend::Hybrid, Backend::HybridNoPre];
    let has = |p: &str| props.iter().any(|x| x == p);
    let mk = |c: &'static str, b: Backend| CallSpec { c, b, h: "-".into(), seed: 0, script: vec![] };
    let rw2 = [Backend::BioRw, Backend::HybridRw];
    if has("C01") {
        for b in all4.iter().chain(rw2.iter()) {
            v.push(mk("grounded", *b));
        }
    }
    if has("C02") {
        for b in all4.iter().chain(rw2.iter()) {
            v.push(mk("complete", *b));
        }
    }
    if has("C03") {
        for b in all4.iter().chain(rw2.iter()) {
            v.push(mk("stable", *b));
        }
        for b in naive3 {
            v.push(mk("prefilter", b));
        }
        for b in all4 {
            v.push(mk("rew", b));
            v.push(mk("rew_pre", b));
        }
    }
    if has("C04") {
        for b in naive3 {
            v.push(mk("count_a", b));
            v.push(mk("count_b", b));
        }
    }
    if has("C05") {
        let heus = ["Simple", "MinModMinPathsMaxVarImp", "MinModMaxVarImpMinPaths"];
        for b in [Backend::Native, Backend::Hybrid] {
            for h in heus {
                v.push(CallSpec { c: "ng", b, h: h.into(), seed: 0, script: vec![] });
            }
        }
        let nr = if rich { 4 } else { 2 };
        for _ in 0..nr {
            v.push(CallSpec { c: "ng", b: Backend::Native, h: "Rand".into(), seed: rng.gen(), script: vec![] });
        }
        let ncustom = if rich { 6 } else { 3 };
        for k in 0..ncustom {
            let len = rng.gen_range(1..=(2 * n + 2));
            let script: Vec<(usize, bool)> = (0..len).map(|_| (rng.gen_range(0..n.max(1)), rng.gen_bool(0.5))).collect();
            let b = if k % 3 == 2 { Backend::Hybrid } else { Backend::Native };
            v.push(CallSpec { c: "ng", b, h: "Custom".into(), seed: 0, script });
        }
        // channel variants
        let h1 = heus[rng.gen_range(0..3)];
        v.push(CallSpec { c: "ng_chan", b: Backend::Native, h: h1.into(), seed: 0, script: vec![] });
        v.push(CallSpec { c: "twoval_chan", b: Backend::Native, h: "Simple".into(), seed: 0, script: vec![] });
        v.push(CallSpec { c: "twoval_chan", b: Backend::Hybrid, h: heus[rng.gen_range(0..3)].into(), seed: 0, script: vec![] });
        v.push(CallSpec { c: "ng_chan", b: Backend::Native, h: "Rand".into(), seed: rng.gen(), script: vec![] });
        let len = rng.gen_range(1..=(2 * n + 2));
        let script: Vec<(usize, bool)> = (0..len).map(|_| (rng.gen_range(0..n.max(1)), rng.gen_bool(0.5))).collect();
        v.push(CallSpec { c: "twoval_chan", b: Backend::Native, h: "Custom".into(), seed: 0, script });
        if rng.gen_range(0..6) == 0 {
            v.push(CallSpec { c: "twoval_chan_b", b: Backend::Native, h: heus[rng.gen_range(0..3)].into(), seed: rng.gen(), script: vec![] });
            v.push(CallSpec { c: "ng_chan_b", b: Backend::Native, h: heus[rng.gen_range(0..3)].into(), seed: rng.gen(), script: vec![] });
        }
    }
    v
}

/// claimed decompositions of the composed (large) cases, by case id
pub static COMPOSED: Mutex<Vec<(String, Vec<Vec<usize>>, Vec<usize>)>> = Mutex::new(Vec::new());
/// composed cases whose answers are longer than this are not recorded (TLC's cost is linear in the answer length)
const BIG_ANSWER_CAP: usize = 800;

pub fn run_case(case: &AdfCase, specs: &[CallSpec], disabled: &Mutex<Vec<String>>, prop: &str) -> Value {
    let text = case.text();
    let n = case.n();
    let mut calls = Vec::new();
    let mut names: Option<Vec<String>> = None;
    for cs in specs {
        let key = format!("{}:{}:{}", cs.c, cs.b.name(), cs.h);
        if disabled.lock().unwrap().contains(&key) {
            continue;
        }
        let t = text.clone();
        let c2 = cs.clone();
        // composed frameworks (up to 2^16 candidates per enumerate-and-check call in an unoptimised build) get a wider budget:
        // a slow machine must not turn a long call into a "hang"
        let budget = if COMPOSED.lock().unwrap().iter().any(|c| c.0 == case.id) { 3 * CALL_BUDGET_S } else { CALL_BUDGET_S };
        let out = guarded(budget, move || exec_call(&t, &c2, n));
        let mut rec = json!({"c": cs.c, "b": cs.b.name(), "h": cs.h, "st": out.status(), "msg": out.msg(),
                             "r": [], "ch": "na", "seed": cs.seed.to_string(),
                             "script": cs.script.iter().map(|(r, b)| json!([r, b])).collect::<Vec<_>>()});
        match out {
            Outcome::Ok(res) => {
                rec["r"] = interps_json(&res.r);
                rec["ch"] = json!(res.ch);
                rec["hcalls"] = json!(res.hcalls);
                match &names {
                    None => names = Some(res.names),
                    Some(nm) => {
                        if *nm != res.names {
                            rec["st"] = json!("names_differ");
                        }
                    }
                }
            }
            Outcome::Timeout => {
                // a hung call keeps its thread; do not pile up more of the same kind
                disabled.lock().unwrap().push(key);
            }
            Outcome::Panic(_) => {}
        }
        calls.push(rec);
    }
    let mut trees = Vec::new();
    if prop == "C05" && n <= 3 && tree_wanted(case) {
        for (b, two_val) in [(Backend::Native, false), (Backend::Native, true), (Backend::Hybrid, false)] {
            let t = text.clone();
            let out = guarded(120, move || enumerate_tree(&t, b, two_val, 20000));
            let mut rec = json!({"c": if two_val { "tree_twoval" } else { "tree_ng" }, "b": b.name(), "h": "Tree", "st": out.status(),
                                 "msg": out.msg(), "runs": 0, "results": [], "maxcalls": 0});
            if let Outcome::Ok((runs, distinct, maxcalls)) = out {
                rec["runs"] = json!(runs);
                rec["maxcalls"] = json!(maxcalls);
                rec["results"] = Value::Array(distinct.iter().map(|r| interps_json(r)).collect());
            }
            trees.push(rec);
        }
    }
    let comp = COMPOSED.lock().unwrap().iter().find(|c| c.0 == case.id).cloned();
    if let Some((_, blocks, observers)) = comp {
        let longest = calls.iter().map(|c| c["r"].as_array().map(|a| a.len()).unwrap_or(0)).max().unwrap_or(0);
        if longest > BIG_ANSWER_CAP {
            return json!({"kind": "skipped", "id": case.id, "why": "answer longer than the cap for composed cases", "longest": longest});
        }
        return json!({"kind": "adfbig", "id": case.id, "n": n, "prop": prop,
            "blocks": blocks.iter().map(|b| b.iter().map(|x| x + 1).collect::<Vec<_>>()).collect::<Vec<_>>(),
            "observers": observers.iter().map(|x| x + 1).collect::<Vec<_>>(),
            "asts": case.asts.iter().map(|a| a.to_json_idx()).collect::<Vec<_>>(),
            "labels": case.labels, "names": names.unwrap_or_else(|| case.labels.clone()),
            "text": text, "calls": calls});
    }
    json!({"kind": "adf", "id": case.id, "n": n, "prop": prop, "trees": trees,
           "asts": case.asts.iter().map(|a| a.to_json_idx()).collect::<Vec<_>>(),
           "labels": case.labels, "names": names.unwrap_or_else(|| case.labels.clone()),
           "text": text, "calls": calls})
}

/// all ADFs with n statements given as truth tables (n <= 2), rendered in rotating syntactic forms
pub fn exhaustive_cases(n: usize) -> Vec<AdfCase> {
    let rows = 1u64 << n;
    let nfun = 1u64 << rows;
    let total = nfun.pow(n as u32);
    let vars: Vec<usize> = (0..n).collect();
    let mut out = Vec::new();
    for code in 0..total {
        let mut c = code;
        let mut asts = Vec::new();
        for s in 0..n {
            let tt = c % nfun;
            c /= nfun;
            asts.push(from_tt(tt, &vars, (code as usize + s) % 4));
        }
        out.push(AdfCase { id: format!("x{}_{}", n, code), labels: default_labels(n), asts });
    }
    out
}

/// seeded sample of three-statement ADFs given by full truth tables
pub fn tt_cases(rng: &mut StdRng, n: usize, count: usize) -> Vec<AdfCase> {
    let vars: Vec<usize> = (0..n).collect();
    (0..count)
        .map(|i| {
            let asts = (0..n).map(|_| from_tt(rand_tt(rng, n), &vars, rng.gen_range(0..4))).collect();
            AdfCase { id: format!("t{}_{}", n, i), labels: default_labels(n), asts }
        })
        .collect()
}

pub fn main(args: &[String]) {
    // sem --props C01,C02 --tier quick --out FILE [--case JSON]
    let mut props: Vec<String> = vec![];
    let mut tier = "quick".to_string();
    let mut out = String::new();
    let mut replay: Option<String> = None;
    let mut i = 0;
    while i < args.len() {
        match args[i].as_str() {
            "--props" => {
                props = args[i + 1].split(',').map(|s| s.to_string()).collect();
                i += 1
            }
            "--tier" => {
                tier = args[i + 1].clone();
                i += 1
            }
            "--out" => {
                out = args[i + 1].clone();
                i += 1
            }
            "--replay" => {
                replay = Some(args[i + 1].clone());
                i += 1
            }
            _ => {}
        }
        i += 1;
    }
    quiet_panics();
    let seed = env_seed();
    let mut rng = StdRng::seed_from_u64(seed ^ 0x5e3a_11);
    let thorough = tier == "thorough";
    let heavy = props.iter().any(|p| p == "C05");
    let mut cases: Vec<AdfCase> = Vec::new();
    let mut replay_specs: Option<Vec<CallSpec>> = None;
    if let Some(path) = replay {
        // replay file: {"text":..., "asts":..., "labels":...} -> rebuild the case from the stored ASTs
        let v: Value = serde_json::from_str(&std::fs::read_to_string(path).unwrap()).unwrap();
        let rec = &v["record"];
        let labels: Vec<String> = rec["labels"].as_array().unwrap().iter().map(|x| x.as_str().unwrap().to_string()).collect();
        let asts: Vec<Ast> = rec["asts"].as_array().unwrap().iter().map(ast_from_json).collect();
        cases.push(AdfCase { id: rec["id"].as_str().unwrap_or("replay").to_string(), labels, asts });
        replay_specs = Some(rec["calls"].as_array().unwrap().iter().map(spec_from_json).collect());
    } else {
        cases.extend(exhaustive_cases(1));
        cases.extend(exhaustive_cases(2));
        let (n3, nr) = if tier == "feat" { (120, 120) } else { match (thorough, heavy) {
            (false, false) => if props.iter().any(|p| p == "C04") { (5000, 5000) } else { (1500, 1500) },
            (false, true) => (500, 500),
            (true, false) => (30000, 12000),
            (true, true) => (6000, 4000),
        } };
        cases.extend(tt_cases(&mut rng, 3, n3));
        for k in 0..nr {
            let n = match k % 10 {
                0..=3 => 3,
                4..=6 => 4,
                7..=8 => 5,
                _ => 6,
            };
            cases.push(rand_adf(&mut rng, n, format!("r{}_{}", n, k)));
        }
        // connected random frameworks of 7-10 statements, judged by the brute-force definitions (grounded, two-valued and stable
        // models stay cheap for TLC at that size; complete models do not: C02 gets a few 7-statement ones only)
        if tier != "feat" {
            let c02 = props.iter().any(|p| p == "C02");
            let nconn = match (thorough, c02) { (false, false) => 24, (false, true) => 6, (true, false) => 200, (true, true) => 40 };
            let stride = (cases.len() / (nconn + 1)).max(1);
            for k in 0..nconn {
                let n = if c02 { 7 } else { rng.gen_range(7..=10) };
                let case = rand_adf(&mut rng, n, format!("c{}_{}", n, k));
                let at = ((k + 1) * stride + k).min(cases.len());
                cases.insert(at, case);
            }
        }
        // composed frameworks of 9-16 statements (C02: 8-11, its odometer visits 3^n candidates), judged by AdfCompose
        {
            let nbig = if tier == "feat" { 12 } else { match (thorough, heavy) { (false, false) => 60, (false, true) => 30, (true, false) => 500, (true, true) => 200 } };
            let (lo, hi) = if props.iter().any(|p| p == "C02") { (8, 11) } else { (9, 16) };
            // frameworks with hundreds of models (exactly 256, and more): C03-C05 only (complete() would visit 3^n candidates)
            if tier != "feat" && !props.iter().any(|p| p == "C02" || p == "C01") {
                let shapes: &[(usize, usize, usize)] = if thorough { &[(8, 0, 0), (5, 2, 0), (7, 1, 1), (9, 0, 0), (6, 1, 2), (8, 0, 1)] } else if heavy { &[(8, 0, 0), (5, 2, 0)] } else { &[(8, 0, 0), (5, 2, 0), (7, 1, 1)] };
                for (k, sh) in shapes.iter().enumerate() {
                    let (case, blocks, observers) = many_models_adf(&mut rng, format!("many{}", k), *sh);
                    COMPOSED.lock().unwrap().push((case.id.clone(), blocks, observers));
                    let at = (cases.len() / (shapes.len() + 1)) * (k + 1);
                    cases.insert(at, case);
                }
            }
            // spread evenly over the trace (the validation is sharded by position)
            let stride = (cases.len() / (nbig + 1)).max(1);
            for k in 0..nbig {
                let (case, blocks, observers) = composed_adf(&mut rng, format!("big{}", k), lo, hi);
                COMPOSED.lock().unwrap().push((case.id.clone(), blocks, observers));
                let at = ((k + 1) * stride + k).min(cases.len());
                cases.insert(at, case);
            }
        }
    }
    // C04: a wide differential pre-filter. Many more ADFs than TLC could judge are run through the two counting searches and
    // through plain stable(); every ADF on which they DISAGREE (as multisets) is added to the recorded cases and judged by TLC
    // against the definition like any other. Agreement proves nothing and is not recorded; the filter only widens the search.
    let mut prefiltered = 0usize;
    if replay_specs.is_none() && props.iter().any(|p| p == "C04") {
        let total = if thorough { 1_500_000 } else { 240_000 };
        let nthreads = std::thread::available_parallelism().map(|x| x.get()).unwrap_or(4).min(12);
        let found: Arc<Mutex<Vec<AdfCase>>> = Arc::new(Mutex::new(Vec::new()));
        let mut hs = Vec::new();
        for t in 0..nthreads {
            let found = found.clone();
            let seed_t = seed ^ (0xd1ff_0000 + t as u64);
            let share = total / nthreads;
            hs.push(std::thread::Builder::new().stack_size(64 * 1024 * 1024).spawn(move || {
                let mut rng = StdRng::seed_from_u64(seed_t);
                for k in 0..share {
                    let n = if k % 3 == 2 { 4 } else { 3 };
                    let case = if k % 2 == 0 {
                        let vars: Vec<usize> = (0..n).collect();
                        AdfCase { id: format!("d{}_{}_{}", n, t, k), labels: default_labels(n),
                                  asts: (0..n).map(|_| from_tt(rand_tt(&mut rng, n), &vars, rng.gen_range(0..4))).collect() }
                    } else {
                        rand_adf(&mut rng, n, format!("d{}_{}_{}", n, t, k))
                    };
                    let text = case.text();
                    let differs = std::panic::catch_unwind(std::panic::AssertUnwindSafe(|| {
                        let parser = AdfParser::default();
                        parser.parse()(&text).unwrap();
                        let mut adf = Adf::from_parser(&parser);
                        let mut st: Vec<Vec<Term>> = adf.stable().collect();
                        st.sort();
                        let mut a: Vec<Vec<Term>> = adf.stable_count_optimisation_heu_a().collect();
                        a.sort();
                        let mut adf2 = Adf::from_parser(&parser);
                        let mut b: Vec<Vec<Term>> = adf2.stable_count_optimisation_heu_b().collect();
                        b.sort();
                        a != st || b != st
                    }))
                    .unwrap_or(true);
                    if differs {
                        let mut f = found.lock().unwrap();
                        if f.len() < 300 {
                            f.push(case);
                        }
                    }
                }
            }).unwrap());
        }
        for h in hs {
            let _ = h.join();
        }
        let mut f = found.lock().unwrap();
        prefiltered = f.len();
        f.sort_by(|a, b| a.id.cmp(&b.id));
        cases.extend(f.drain(..));
        eprintln!("sem: differential pre-filter over {} ADFs flagged {}", total, prefiltered);
    }
    // C01-C03, C05: the same idea across back-ends and variants. The library holds several independent implementations of every
    // semantics (native / biodivine / hybrid, enumerate-and-check / rewriting / nogood search): many more ADFs than TLC could judge
    // are run through all of them, and every ADF on which two of them DISAGREE is recorded and judged by TLC against the definition.
    // Agreement proves nothing and is not recorded.
    let xprop = props.iter().find(|p| ["C01", "C02", "C03", "C05"].contains(&p.as_str())).cloned();
    let mut xflagged = 0usize;
    let mut xtotal = 0usize;
    if let (None, Some(xp)) = (&replay_specs, xprop.clone()) {
        if tier != "feat" {
            xtotal = if thorough { 1_200_000 } else { 200_000 };
            let nthreads = std::thread::available_parallelism().map(|x| x.get()).unwrap_or(4).min(12);
            let found: Arc<Mutex<Vec<AdfCase>>> = Arc::new(Mutex::new(Vec::new()));
            let mut hs = Vec::new();
            for t in 0..nthreads {
                let found = found.clone();
                let xp = xp.clone();
                let seed_t = seed ^ (0xbac0_0000 + t as u64);
                let share = xtotal / nthreads;
                hs.push(std::thread::Builder::new().stack_size(64 * 1024 * 1024).spawn(move || {
                    let mut rng = StdRng::seed_from_u64(seed_t);
                    for k in 0..share {
                        let n = [3, 3, 4, 4, 5][k % 5];
                        let case = if k % 2 == 0 {
                            let vars: Vec<usize> = (0..n).collect();
                            AdfCase { id: format!("x{}_{}_{}", n, t, k), labels: default_labels(n),
                                      asts: (0..n).map(|_| { let kk = rng.gen_range(0..=3usize.min(n)); let mut sup = vars.clone();
                                                            for i in 0..kk { let j = rng.gen_range(i..n); sup.swap(i, j); } sup.truncate(kk);
                                                            from_tt(rand_tt(&mut rng, kk), &sup, rng.gen_range(0..4)) }).collect() }
                        } else {
                            rand_adf(&mut rng, n, format!("x{}_{}_{}", n, t, k))
                        };
                        let text = case.text();
                        let differs = std::panic::catch_unwind(std::panic::AssertUnwindSafe(|| {
                            let parser = AdfParser::default();
                            parser.parse()(&text).unwrap();
                            let sorted = |mut v: Vec<Vec<Term>>| { v.sort(); v };
                            let tvs = |v: Vec<Vec<Term>>| -> Vec<Vec<u8>> { v.iter().map(|m| m.iter().map(|t| if t.is_truth_value() { if t.is_true() { 1 } else { 0 } } else { 2 }).collect()).collect() };
                            let mut nat = Adf::from_parser(&parser);
                            let bio = BdAdf::from_parser(&parser);
                            let mut hyb = bio.hybrid_step_opt(false);
                            let answers: Vec<Vec<Vec<u8>>> = match xp.as_str() {
                                "C01" => vec![tvs(vec![nat.grounded()]), tvs(vec![bio.grounded()]), tvs(vec![hyb.grounded()])],
                                "C02" => vec![tvs(sorted(nat.complete().collect())), tvs(sorted(bio.complete().collect())), tvs(sorted(hyb.complete().collect()))],
                                "C03" => vec![tvs(sorted(nat.stable().collect())), tvs(sorted(nat.stable_with_prefilter().collect())), tvs(sorted(bio.stable().collect())),
                                              tvs(sorted(bio.stable_bdd_representation())), tvs(sorted(nat.stable_bdd_representation(&bio))), tvs(sorted(hyb.stable().collect()))],
                                _ => vec![tvs(sorted(nat.stable().collect())), tvs(sorted(nat.stable_nogood(Heuristic::Simple).collect())),
                                          tvs(sorted(nat.stable_nogood(Heuristic::MinModMinPathsMaxVarImp).collect())),
                                          tvs(sorted(hyb.stable_nogood(Heuristic::MinModMaxVarImpMinPaths).collect()))],
                            };
                            answers.iter().any(|a| *a != answers[0])
                        }))
                        .unwrap_or(true);
                        if differs {
                            let mut f = found.lock().unwrap();
                            if f.len() < 300 {
                                f.push(case);
                            }
                        }
                    }
                }).unwrap());
            }
            for h in hs {
                let _ = h.join();
            }
            let mut f = found.lock().unwrap();
            xflagged = f.len();
            f.sort_by(|a, b| a.id.cmp(&b.id));
            cases.extend(f.drain(..));
            eprintln!("sem: back-end differential pre-filter over {} ADFs flagged {}", xtotal, xflagged);
        }
    }
    let disabled = Mutex::new(Vec::new());
    let mut f = std::io::BufWriter::new(std::fs::File::create(&out).expect("cannot create out file"));
    // parallel over cases with a small pool; output order is by case index (deterministic)
    let nthreads = std::thread::available_parallelism().map(|x| x.get()).unwrap_or(4).min(12);
    let specs: Vec<Vec<CallSpec>> = match replay_specs {
        Some(sp) => vec![sp],
        None => cases.iter().map(|c| call_specs(&props, &mut rng, c.n(), thorough)).collect(),
    };
    let cases = Arc::new(cases);
    let specs = Arc::new(specs);
    let next = Arc::new(AtomicUsize::new(0));
    let results: Arc<Mutex<Vec<Option<Value>>>> = Arc::new(Mutex::new(vec![None; cases.len()]));
    let disabled = Arc::new(disabled);
    let mut hs = Vec::new();
    for _ in 0..nthreads {
        let (cases, specs, next, results, disabled) = (cases.clone(), specs.clone(), next.clone(), results.clone(), disabled.clone());
        let prop0 = props.get(0).cloned().unwrap_or_default();
        hs.push(std::thread::spawn(move || loop {
            let i = next.fetch_add(1, Ordering::SeqCst);
            if i >= cases.len() {
                break;
            }
            let v = run_case(&cases[i], &specs[i], &disabled, &prop0);
            results.lock().unwrap()[i] = Some(v);
        }));
    }
    for h in hs {
        let _ = h.join();
    }
    for v in results.lock().unwrap().iter() {
        if let Some(v) = v {
            writeln!(f, "{}", v).unwrap();
        }
    }
    if xtotal > 0 {
        writeln!(f, "{}", json!({"kind": "stat", "id": "xprefilter", "prefilter_adfs": xtotal, "flagged": xflagged})).unwrap();
    }
    if props.iter().any(|p| p == "C04") {
        writeln!(f, "{}", json!({"kind": "stat", "id": "prefilter", "prefilter_adfs": if thorough { 1_500_000 } else { 240_000 }, "flagged": prefiltered})).unwrap();
    }
    f.flush().unwrap();
    eprintln!("sem: {} cases, {} timeouts", cases.len(), TIMEOUTS.load(Ordering::SeqCst));
    std::process::exit(0);
}

pub fn ast_from_json(v: &Value) -> Ast {
    let a = v.as_array().unwrap();
    let tag = a[0].as_str().unwrap();
    match tag {
        "top" => Ast::Top,
        "bot" => Ast::Bot,
        "atom" => Ast::Atom(a[1].as_u64().unwrap() as usize - 1),
        "not" => not(ast_from_json(&a[1])),
        "and" => and(ast_from_json(&a[1]), ast_from_json(&a[2])),
        "or" => or(ast_from_json(&a[1]), ast_from_json(&a[2])),
        "imp" => imp(ast_from_json(&a[1]), ast_from_json(&a[2])),
        "iff" => iff(ast_from_json(&a[1]), ast_from_json(&a[2])),
        "xor" => xor(ast_from_json(&a[1]), ast_from_json(&a[2])),
        _ => panic!("bad ast tag"),
    }
}

fn leak(s: &str) -> &'static str {
    Box::leak(s.to_string().into_boxed_str())
}

pub fn spec_from_json(v: &Value) -> CallSpec {
    let b = match v["b"].as_str().unwrap() {
        "native" => Backend::Native,
        "bio" => Backend::Bio,
        "hybrid" => Backend::Hybrid,
        "bio_rw" => Backend::BioRw,
        "hybrid_rw" => Backend::HybridRw,
        _ => Backend::HybridNoPre,
    };
    CallSpec {
        c: leak(v["c"].as_str().unwrap()),
        b,
        h: v["h"].as_str().unwrap().to_string(),
        seed: v["seed"].as_str().and_then(|s| s.parse().ok()).unwrap_or(0),
        script: v["script"].as_array().map(|a| a.iter().map(|x| (x[0].as_u64().unwrap() as usize, x[1].as_bool().unwrap())).collect()).unwrap_or_default(),
    }
}

/// choice trees are enumerated for every ADF with <= 2 statements and for every 4th three-statement one
fn tree_wanted(case: &AdfCase) -> bool {
    if case.n() <= 2 {
        return true;
    }
    let h: usize = case.id.bytes().map(|b| b as usize).sum();
    h % 4 == 0
}
