//! C18: random add sequences on the real NoGoodStore under all duplicate-elimination modes; conclusions, conflicts
//! and closures for many partial interpretations are logged; TLC judges them by brute force over total assignments.
use crate::util::*;
use adf_bdd::datatypes::Term;
use adf_bdd::nogoods::{DuplicateElemination, NoGood, NoGoodStore};
use rand::rngs::StdRng;
use rand::{Rng, SeedableRng};
use serde_json::{json, Value};
use std::io::Write;

type PA = Vec<Option<bool>>; // per position: None = inactive

/// the used positions of a store: `pos[i]` is the real position of compressed position i; `width` the store size
struct PosMap {
    pos: Vec<usize>,
    width: usize,
}

fn to_terms(p: &PA, pm: &PosMap) -> Vec<Term> {
    let mut t = vec![Term(2); pm.width];
    for (i, x) in p.iter().enumerate() {
        t[pm.pos[i]] = match x { None => Term(2), Some(true) => Term::TOP, Some(false) => Term::BOT };
    }
    t
}

/// real positions (1-based); TLC maps them back through the record's `pos` list
fn pa_json(p: &PA, pm: &PosMap) -> Value {
    let act: Vec<usize> = p.iter().enumerate().filter(|(_, x)| x.is_some()).map(|(i, _)| pm.pos[i] + 1).collect();
    let val: Vec<usize> = p.iter().enumerate().filter(|(_, x)| **x == Some(true)).map(|(i, _)| pm.pos[i] + 1).collect();
    json!({"act": act, "val": val})
}

/// positions around machine-word, roaring-container (65536) and array-container (4096) boundaries
const EDGE_POS: [usize; 22] = [0, 1, 7, 8, 31, 32, 33, 63, 64, 65, 127, 128, 255, 256, 4095, 4096, 4097, 65535, 65536, 65537, 131071, 131072];

fn wide_posmap(rng: &mut StdRng, v: usize) -> PosMap {
    let mut pos: Vec<usize> = Vec::new();
    while pos.len() < v {
        let p = if rng.gen_bool(0.7) { EDGE_POS[rng.gen_range(0..EDGE_POS.len())] } else { rng.gen_range(0..140_000) };
        if !pos.contains(&p) { pos.push(p); }
    }
    if rng.gen_bool(0.5) { pos.sort(); }
    let max = *pos.iter().max().unwrap();
    let width = if rng.gen_bool(0.5) { max + 1 } else { max + 1 + rng.gen_range(0..70) };
    PosMap { pos, width }
}

fn parts_json(parts: &(Vec<u32>, Vec<u32>)) -> Value {
    json!({"act": parts.0.iter().map(|x| x + 1).collect::<Vec<_>>(), "val": parts.1.iter().map(|x| x + 1).collect::<Vec<_>>()})
}

fn terms_json(v: &[Term]) -> Value {
    let act: Vec<usize> = v.iter().enumerate().filter(|(_, t)| t.is_truth_value()).map(|(i, _)| i + 1).collect();
    let val: Vec<usize> = v.iter().enumerate().filter(|(_, t)| t.is_truth_value() && t.is_true()).map(|(i, _)| i + 1).collect();
    json!({"act": act, "val": val})
}

fn rand_pa(rng: &mut StdRng, v: usize, size: usize) -> PA {
    let mut p: PA = vec![None; v];
    let mut idx: Vec<usize> = (0..v).collect();
    for i in 0..size.min(v) {
        let j = rng.gen_range(i..v);
        idx.swap(i, j);
        p[idx[i]] = Some(rng.gen_bool(0.5));
    }
    p
}

fn mode_name(m: usize) -> &'static str {
    ["None", "Equiv", "Subsume"][m]
}
fn mode_val(m: usize) -> DuplicateElemination {
    [DuplicateElemination::None, DuplicateElemination::Equiv, DuplicateElemination::Subsume][m]
}

fn one_seq(rng: &mut StdRng, id: String, with_empty: bool, wide: bool) -> Value {
    let v = rng.gen_range(2..=6usize);
    let nadds = rng.gen_range(1..=7);
    let pm = if wide { wide_posmap(rng, v) } else { PosMap { pos: (0..v).collect(), width: v } };
    let pm = &pm;
    let mut store = NoGoodStore::new(pm.width as u32);
    let mut mode = rng.gen_range(0..3);
    store.set_dup_elem(mode_val(mode));
    let mut steps = Vec::new();
    let mut added: Vec<PA> = Vec::new();
    for k in 0..nadds {
        if rng.gen_range(0..100) < 15 {
            mode = rng.gen_range(0..3);
            store.set_dup_elem(mode_val(mode));
        }
        let r = rng.gen_range(0..100);
        let ng: PA = if with_empty && k == 0 {
            vec![None; v]
        } else if r < 15 && !added.is_empty() {
            added[rng.gen_range(0..added.len())].clone() // duplicate
        } else if r < 40 && !added.is_empty() {
            // nested: extend or shrink an earlier one
            let mut p = added[rng.gen_range(0..added.len())].clone();
            let pos = rng.gen_range(0..v);
            if p[pos].is_some() && p.iter().filter(|x| x.is_some()).count() > 1 {
                p[pos] = None;
            } else {
                p[pos] = Some(rng.gen_bool(0.5));
            }
            p
        } else {
            let size = [1, 1, 2, 2, 2, 3, 3, 4][rng.gen_range(0..8)];
            rand_pa(rng, v, size)
        };
        store.add_ng(NoGood::from_term_vec(&to_terms(&ng, pm)));
        steps.push(json!({"mode": mode_name(mode), "add": pa_json(&ng, pm)}));
        added.push(ng);
    }
    // queries
    let mut qs: Vec<PA> = Vec::new();
    if v <= 3 {
        let total = 3usize.pow(v as u32);
        for code in 0..total {
            let mut c = code;
            let mut p: PA = vec![None; v];
            for i in 0..v {
                p[i] = match c % 3 { 0 => None, 1 => Some(true), _ => Some(false) };
                c /= 3;
            }
            qs.push(p);
        }
    } else {
        for _ in 0..30 {
            let size = rng.gen_range(0..=v);
            qs.push(rand_pa(rng, v, size));
        }
        // interpretations one literal short of an added nogood (where conclusions fire) and matching ones
        for ng in added.iter() {
            let act: Vec<usize> = (0..v).filter(|i| ng[*i].is_some()).collect();
            if act.is_empty() { continue; }
            let mut p = ng.clone();
            p[act[rng.gen_range(0..act.len())]] = None;
            qs.push(p.clone());
            let free: Vec<usize> = (0..v).filter(|i| p[*i].is_none()).collect();
            if !free.is_empty() {
                let mut q = p.clone();
                q[free[rng.gen_range(0..free.len())]] = Some(rng.gen_bool(0.5));
                qs.push(q);
            }
            qs.push(ng.clone());
        }
        for _ in 0..16 {
            qs.push(rand_pa(rng, v, v)); // total assignments
        }
    }
    let queries: Vec<Value> = qs
        .iter()
        .map(|q| {
            let terms = to_terms(q, pm);
            let i = NoGood::from_term_vec(&terms);
            let concl = match store.conclusions(&i) {
                Some(c) => { let mut j = parts_json(&c.verif_parts()); j["st"] = json!("some"); j }
                None => json!({"st": "none", "act": [], "val": []}),
            };
            let (tag, cl) = store.verif_closure(&terms);
            let mut clj = terms_json(&cl);
            clj["tag"] = json!(tag);
            json!({"i": pa_json(q, pm), "concl": concl, "closure": clj})
        })
        .collect();
    // wide stores have one bucket per position of the width: only the non-empty ones are logged
    let dump: Vec<Value> = store.verif_dump().iter().filter(|b| !wide || !b.is_empty()).map(|b| Value::Array(b.iter().map(parts_json).collect())).collect();
    json!({"kind": "ngstore", "id": id, "v": v, "width": pm.width, "pos": pm.pos.iter().map(|p| p + 1).collect::<Vec<_>>(),
           "steps": steps, "queries": queries, "dump": dump})
}

pub fn main(args: &[String]) {
    let mut tier = "quick".to_string();
    let mut out = String::new();
    let mut i = 0;
    while i < args.len() {
        match args[i].as_str() {
            "--tier" => { tier = args[i + 1].clone(); i += 1 }
            "--out" => { out = args[i + 1].clone(); i += 1 }
            _ => {}
        }
        i += 1;
    }
    quiet_panics();
    let mut rng = StdRng::seed_from_u64(env_seed() ^ 0x0906_00d5);
    let n = if tier == "thorough" { 6000 } else { 700 };
    let mut f = std::io::BufWriter::new(std::fs::File::create(&out).expect("cannot create out file"));
    for k in 0..n {
        let id = format!("g{}", k);
        let mut r2 = StdRng::seed_from_u64(rng.gen());
        let with_empty = k == 5; // one sequence starts with the empty nogood (known finding F10)
        let wide = k % 4 == 3; // a quarter of the sequences live on scattered positions of a wide store
        let id = if wide { format!("w{}", k) } else { id };
        let res = std::panic::catch_unwind(std::panic::AssertUnwindSafe(|| one_seq(&mut r2, id.clone(), with_empty, wide)));
        let v = match res {
            Ok(v) => v,
            Err(_) => json!({"kind": "panic", "id": id}),
        };
        writeln!(f, "{}", v).unwrap();
    }
    f.flush().unwrap();
    eprintln!("ng: {} sequences", n);
}
