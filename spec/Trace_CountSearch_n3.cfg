SPECIFICATION TraceSpec
CONSTANTS N = 3
          AdfSetKind = "all"
          FixedLoop = TRUE
          FixedMore = TRUE
POSTCONDITION Consumed
CHECK_DEADLOCK FALSE
