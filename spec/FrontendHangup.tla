--------------------------- MODULE FrontendHangup ---------------------------
(***************************************************************************)
(* The streaming chain of Frontend.tla when the LAST store goes away while *)
(* the producer and the relay carry on (the receiving Bdd is dropped, its  *)
(* channel end with it).  Bdd::recv on the relay pushes the node first and *)
(* only then forwards; a failed forward is logged and nothing else: the    *)
(* relay must keep mirroring the producer exactly as before.               *)
(*   StoreFirst = TRUE  : the code's order (push, then send)               *)
(*   StoreFirst = FALSE : forward first and give up the poll when the      *)
(*                        forward fails - the message is consumed but never*)
(*                        stored (fidelity self-test: RelayInv must fail)  *)
(***************************************************************************)
EXTENDS Frontend

CONSTANT StoreFirst
VARIABLE alive
hvars == <<vars, alive>>

InitH == Init /\ alive = TRUE

\* dropping a store is not concurrent with a call on it
HangUp == /\ alive /\ ~lpoll.active
          /\ alive' = FALSE /\ c2' = <<>>
          /\ UNCHANGED <<prod, c1, relay, recv, rpoll, lpoll>>

RelayTakeDead ==
  /\ ~alive /\ rpoll.active
  /\ IF StoreFirst \/ c1 = <<>>
     THEN LET t == Take(relay, c1, rpoll) IN relay' = t[1] /\ c1' = t[2] /\ rpoll' = t[3]
     ELSE relay' = relay /\ c1' = Tail(c1) /\ rpoll' = [rpoll EXCEPT !.active = FALSE, !.res = "notfound"]
  /\ UNCHANGED <<prod, c2, recv, lpoll>>

NextH == \/ alive /\ Next /\ UNCHANGED alive
         \/ HangUp
         \/ ~alive /\ (ProdCreate \/ (\E h \in Handles : RelayBegin(h)) \/ RelayTakeDead) /\ UNCHANGED alive
SpecH == InitH /\ [][NextH]_hvars

\* the relay keeps mirroring the producer whatever happens downstream
RelayInv == /\ IsPrefix(relay, prod) /\ relay \o c1 = prod
            /\ (~rpoll.active /\ rpoll.res = "found")    => rpoll.h < Len(relay)
            /\ (~rpoll.active /\ rpoll.res = "notfound") => ~(rpoll.h < Len(relay))
            /\ (Len(prod) = MaxNodes + 2 /\ c1 = <<>>) => relay = prod
\* while the last store lives, everything Frontend.tla promises holds
AliveInv == alive => (PrefixInv /\ FoundRule /\ Quiescent)
\* what the dropped store held at the time stays a prefix of the producer's table
DeadInv == ~alive => IsPrefix(recv, prod)
=============================================================================
