------------------------------ MODULE Trace_Feat ------------------------------
(***************************************************************************)
(* C12: answers of a build under another cargo feature set compared,       *)
(* record by record, with the answers of the default build on the SAME     *)
(* seeded workload.  The only documented exception (memoised model counts  *)
(* when ad-hoc path counting is on without ad-hoc model counting) is       *)
(* flagged per record by the feature sets involved.                        *)
(***************************************************************************)
EXTENDS Naturals, Sequences, FiniteSets, Json, IOUtils, TLC

Rec == ndJsonDeserialize(IOEnv.TRACE)
VARIABLE l

RangeOf(sq) == { sq[i] : i \in DOMAIN sq }
Report(ok, id, what) == ok \/ PrintT(<<"MISMATCH", l, id, "C12", what>>)
Exception(f) == f.adhoccounting /\ ~f.adhoccountmodels

Check(r) ==
  CASE r.what = "sem" ->
         \* same status and the same set of interpretations, each once, for every semantics call
         /\ Report(Len(r.default) = Len(r.variant), r.id, "number-of-calls")
         /\ Len(r.default) = Len(r.variant) =>
              \A i \in DOMAIN r.default :
                LET d == r.default[i]  v == r.variant[i] IN
                /\ Report(d.st = v.st /\ RangeOf(d.r) = RangeOf(v.r) /\ Len(d.r) = Len(v.r), r.id, <<"semantics-answer", d.c, d.b, d.h>>)
                /\ (d.r = v.r \/ PrintT(<<"DRIFT", l, r.id, "order">>))
    [] r.what = "op" ->
         \* same result handle and same node table after the same operation
         Report(r.default = r.variant, r.id, "diagram-operation")
    [] r.what = "query" ->
         LET d == r.default  v == r.variant
             exc == Exception(r.feat_default) \/ Exception(r.feat_variant) IN
         /\ Report(d.paths_memo = v.paths_memo /\ d.paths_naive = v.paths_naive, r.id, "paths")
         /\ Report(d.models_naive = v.models_naive, r.id, "models-naive")
         /\ Report(exc \/ d.models_memo = v.models_memo, r.id, "models-memo")
         /\ Report(d.depth = v.depth, r.id, "depth")
         /\ Report(d.deps = v.deps, r.id, "dependencies")
         /\ Report(d.passive = v.passive /\ d.active = v.active, r.id, "impacts")
         /\ Report(d.cubes = v.cubes, r.id, "path-cubes")
    [] r.what = "hist" ->
         Report(r.default = r.variant, r.id, "history-answers")
    [] r.what = "diverged" ->
         \* the same seeded workload took a different course: an earlier answer (a handle, a table size) differed
         Report(FALSE, r.id, "workload-diverged-from-default-build")

Init == l = 1
Next == /\ l <= Len(Rec) /\ Check(Rec[l]) \in BOOLEAN /\ l' = l + 1
Spec == Init /\ [][Next]_l
Consumed == (TLCGet("stats").diameter - 1 = Len(Rec))
              \/ PrintT(<<"NOTCONSUMED", TLCGet("stats").diameter, Len(Rec)>>)
=============================================================================
