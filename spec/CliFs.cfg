SPECIFICATION Spec
CONSTANTS Names = {"a", "b", "s1", "s2"}
          Adfs = {"A", "B"}
          MaxRuns = 3
PROPERTIES NeverOverwrite OneNewExport
CHECK_DEADLOCK FALSE
