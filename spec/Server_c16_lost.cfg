SPECIFICATION Spec
CONSTANTS Principals = {"A"}
          Accounts = {"alice", "carol"}
          PNames = {"P"}
          Codes = {"c1"}
          BadCodes = {}
          BoomCodes = {}
          Strategies = {"S"}
          MaxReq = 6
          TempNames = {}
          GenPNames = {}
          FilterOnOwner = TRUE
          FixedF8 = TRUE
          Person <- IdPerson
INVARIANTS NoLostResult
CHECK_DEADLOCK FALSE
