SPECIFICATION Spec
CONSTANTS N = 2
          MaxCalls = 2
          VariableList = TRUE
          AdHocCounting = TRUE
          AdHocModels = FALSE
INVARIANTS AnswerOK ResidualOK StoreOK
VIEW View
CHECK_DEADLOCK FALSE
