SPECIFICATION Spec
CONSTANTS VariableList = TRUE
          AdHocCounting = FALSE
          AdHocModels = FALSE
POSTCONDITION Consumed
CHECK_DEADLOCK FALSE
