---------------------------- MODULE ServerShapes ----------------------------
(***************************************************************************)
(* The database-command footprint of every handler of the web service      *)
(* (variable-free part of the service model, shared by Server.tla and the  *)
(* trace validator Trace_Server).                                          *)
(***************************************************************************)
EXTENDS Naturals, Sequences, FiniteSets

(************ the database commands each handler stands for ***************)
(* What a request of kind op with a given outcome sends to the database,   *)
(* as a pattern: a sequence of <<command, collection, filter keys, mult>>, *)
(* mult "1" = exactly once, "?" = optional, "+" = once or more (candidate  *)
(* name searches).  This is the table behind the Step disjuncts above and  *)
(* what the trace validator compares with the stub's command log.          *)
(***************************************************************************)
KU == {"username"}
KNU == {"name", "username"}
AnonPrefix == << <<"find", "users", KU, "+">>, <<"insert", "users", {}, "1">> >>

HandlerCommands(op, hadCookie, status, named) ==
  CASE op = "register" -> IF status = 400 THEN <<>>
                          ELSE IF status = 409 THEN << <<"find", "users", KU, "1">> >>
                          ELSE << <<"find", "users", KU, "1">>, <<"insert", "users", {}, "1">> >>
    [] op = "login" -> IF status = 400 THEN << <<"find", "users", KU, "?">> >> ELSE << <<"find", "users", KU, "1">> >>
    [] op \in {"logout", "info"} -> IF status = 401 THEN <<>> ELSE << <<"find", "users", KU, "1">> >>
    [] op = "update" -> IF status \in {400, 401} THEN <<>>
                        ELSE IF status = 409 THEN << <<"find", "users", KU, "1">> >>
                        ELSE IF status = 500 THEN << <<"find", "users", KU, "?">>, <<"update", "users", KU, "1">> >>
                        ELSE << <<"find", "users", KU, "?">>, <<"update", "users", KU, "1">>, <<"update", "adf-problems", KU, "1">> >>
    [] op = "delete_account" -> IF status = 401 THEN <<>>
                                ELSE << <<"delete", "adf-problems", KU, "1">>, <<"delete", "users", KU, "1">> >>
    [] op = "add" -> IF status = 400 THEN <<>>
                     ELSE (IF hadCookie THEN <<>> ELSE AnonPrefix)
                          \o (IF status = 409 THEN << <<"find", "adf-problems", KNU, "1">> >>
                              ELSE << <<"find", "adf-problems", KNU, IF named THEN "1" ELSE "+">>, <<"insert", "adf-problems", {}, "1">> >>)
    [] op = "solve" -> IF status = 401 THEN <<>> ELSE << <<"find", "adf-problems", KNU, "1">> >>
    [] op = "get" -> IF status = 401 THEN <<>> ELSE << <<"find", "adf-problems", KNU, "1">> >>
    [] op = "list" -> IF status = 401 THEN <<>> ELSE << <<"find", "adf-problems", KU, "1">> >>
    [] op = "delete" -> IF status = 401 THEN <<>> ELSE << <<"delete", "adf-problems", KNU, "1">> >>
\* a background task writes its result with update_one {name, username}
TaskWriteKeys == KNU

\* does the observed command sequence obs (<<cmd, coll, keys>> triples) match the pattern pat?
RECURSIVE MatchCmds(_, _, _, _)
MatchCmds(obs, i, pat, j) ==
  IF j > Len(pat) THEN i > Len(obs)
  ELSE LET p == pat[j]
           hit == i <= Len(obs) /\ obs[i][1] = p[1] /\ obs[i][2] = p[2] /\ obs[i][3] = p[3] IN
       CASE p[4] = "1" -> hit /\ MatchCmds(obs, i + 1, pat, j + 1)
         [] p[4] = "?" -> (hit /\ MatchCmds(obs, i + 1, pat, j + 1)) \/ MatchCmds(obs, i, pat, j + 1)
         [] p[4] = "+" -> hit /\ (MatchCmds(obs, i + 1, pat, j) \/ MatchCmds(obs, i + 1, pat, j + 1))

=============================================================================
