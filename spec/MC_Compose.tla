----------------------------- MODULE MC_Compose -----------------------------
(***************************************************************************)
(* The composition theorem behind AdfCompose, model-checked: for EVERY ADF *)
(* of a given small shape (every choice of Boolean functions over the      *)
(* allowed supports) the composed answers equal the direct definitions of  *)
(* AdfSem on the whole framework, and the product count is the cardinality.*)
(***************************************************************************)
EXTENDS AdfCompose, TLC

CONSTANTS N, Blocks, Obs

SupportOf(s) == IF s \in BaseOf(Blocks)
                THEN RangeS(Blocks[CHOOSE k \in DOMAIN Blocks : s \in RangeS(Blocks[k])])
                ELSE BaseOf(Blocks)

\* a Boolean function over a support (set of assignments of the support) as an AST: Shannon expansion along a variable list
RECURSIVE AstOf(_, _)
AstOf(f, vs) ==
  IF vs = {} THEN (IF f = {} THEN <<"bot">> ELSE <<"top">>)
  ELSE LET x  == CHOOSE y \in vs : \A z \in vs : y <= z
           hi == { A \ {x} : A \in { B \in f : x \in B } }
           lo == { A \in f : x \notin A } IN
       <<"or", <<"and", <<"atom", x>>, AstOf(hi, vs \ {x})>>, <<"and", <<"not", <<"atom", x>>>>, AstOf(lo, vs \ {x})>> >>

VARIABLES fs, stage
vars == <<fs, stage>>

\* staged: one statement's function per step, so that all workers take part
Init == fs = <<>> /\ stage = 0
Next == /\ stage < N
        /\ \E f \in SUBSET SUBSET SupportOf(stage + 1) : fs' = Append(fs, f)
        /\ stage' = stage + 1
Spec == Init /\ [][Next]_vars

Lemma ==
  stage = N =>
    LET asts == [s \in 1..N |-> AstOf(fs[s], SupportOf(s))]
        tt   == TTs(asts, N)
        bs   == BlockSem(asts, Blocks)
        set(sel) == { v \in Interp(N) : VecOK(v, asts, Blocks, Obs, bs, sel) }
    IN /\ ValidDecomp(asts, N, Blocks, Obs)
       /\ GroundedC(asts, N, Blocks, Obs, bs) = Grounded(tt, N)
       /\ set("co") = Complete(tt, N) /\ Cardinality(set("co")) = CountC(bs, "co", 1)
       /\ set("tw") = TwoValDirect(tt, N) /\ Cardinality(set("tw")) = CountC(bs, "tw", 1)
       /\ set("st") = Stable(tt, N) /\ Cardinality(set("st")) = CountC(bs, "st", 1)

\* shapes
B_a == << <<1, 3>> >>          O_a == <<2>>
B_b == << <<2>>, <<3, 1>> >>   O_b == <<>>
B_c == << <<1, 3>>, <<4, 2>> >> O_c == <<>>
B_d == << <<3, 1>> >>          O_d == <<2, 4>>
B_e == << <<2>>, <<3>> >>      O_e == <<1>>
=============================================================================
