------------------------------ MODULE ParserOps ------------------------------
(***************************************************************************)
(* Step functions on the parser's name list and dictionary (see            *)
(* ParserState), shared by the state machine and by Trace_Meta.            *)
(***************************************************************************)
EXTENDS Naturals, Sequences, FiniteSets

RangeOf(sq) == { sq[i] : i \in DOMAIN sq }
AddName(names, l) == IF l \in RangeOf(names) THEN names ELSE Append(names, l)
DictOf(names) == [l \in RangeOf(names) |-> (CHOOSE i \in DOMAIN names : names[i] = l) - 1]
\* reorder names according to a total order given as a sequence (labels missing from it keep their relative order at the end)
RECURSIVE Filter(_, _)
Filter(order, S) == IF order = <<>> THEN <<>> ELSE (IF Head(order) \in S THEN <<Head(order)>> ELSE <<>>) \o Filter(Tail(order), S)
SortBy(names, order) == Filter(order, RangeOf(names)) \o SelectSeq(names, LAMBDA l : l \notin RangeOf(order))

\* the name list after the s facts of a text, in text order
RECURSIVE NamesAfter(_, _)
NamesAfter(sfacts, acc) == IF sfacts = <<>> THEN acc ELSE NamesAfter(Tail(sfacts), AddName(acc, Head(sfacts)))
=============================================================================
