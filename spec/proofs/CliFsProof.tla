----------------------------- MODULE CliFsProof -----------------------------
(***************************************************************************)
(* TLAPS: the CLI's directory machine never changes or removes an existing *)
(* file - for ANY set of names, ADFs and any number of invocations (TLC     *)
(* checks four names and three invocations).                               *)
(***************************************************************************)
EXTENDS CliFs, TLAPS

Keeps == \A n \in DOMAIN fs : n \in DOMAIN fs' /\ fs'[n] = fs[n]

LEMMA StepKeeps == [Next]_vars => [Keeps]_vars
<1> SUFFICES ASSUME [Next]_vars PROVE [Keeps]_vars
  OBVIOUS
<1>1. CASE UNCHANGED vars
  BY <1>1
<1>2. CASE Next
  <2>1. PICK s \in Names, i \in BOOLEAN, e \in Names \cup {""} : Run([src |-> s, imp |-> i, exp |-> e])
    BY <1>2 DEF Next
  <2>2. fs' = FsAfter(fs, [src |-> s, imp |-> i, exp |-> e])
    BY <2>1 DEF Run
  <2>3. Keeps
    BY <2>2 DEF FsAfter, Keeps
  <2> QED
    BY <2>3
<1> QED
  BY <1>1, <1>2

THEOREM NeverOverwriteAlways == Spec => NeverOverwrite
  BY StepKeeps, PTL DEF Spec, NeverOverwrite, Keeps
=============================================================================
