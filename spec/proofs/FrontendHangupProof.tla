------------------------- MODULE FrontendHangupProof -------------------------
(***************************************************************************)
(* TLAPS: with the code's order (push, then forward: StoreFirst = TRUE)    *)
(* the relay keeps mirroring the producer - relay \o c1 = prod - for ANY   *)
(* stream length, any interleaving and whenever the last store of the      *)
(* chain is dropped (FrontendHangup!SpecH); while that store lives the     *)
(* full chain equations of FrontendProof hold.                             *)
(***************************************************************************)
EXTENDS FrontendHangup, Integers, SequenceTheorems, TLAPS

Node == Int \cup {"BOT", "TOP"}
TypeOK == /\ prod \in Seq(Node) /\ c1 \in Seq(Node) /\ relay \in Seq(Node) /\ c2 \in Seq(Node) /\ recv \in Seq(Node)
          /\ rpoll \in [active : BOOLEAN, h : Nat, res : {"none", "found", "notfound"}]
          /\ lpoll \in [active : BOOLEAN, h : Nat, res : {"none", "found", "notfound"}]
          /\ alive \in BOOLEAN

HInv == TypeOK /\ relay \o c1 = prod /\ (alive => recv \o c2 = relay)

LEMMA AppendConcat == ASSUME NEW S, NEW a \in Seq(S), NEW b \in Seq(S), NEW x \in S
                      PROVE a \o Append(b, x) = Append(a \o b, x)
  OBVIOUS

LEMMA HeadTailConcat == ASSUME NEW S, NEW a \in Seq(S), NEW b \in Seq(S), b # <<>>
                        PROVE Append(a, Head(b)) \o Tail(b) = a \o b
  OBVIOUS

THEOREM InitOK == InitH => HInv
  BY DEF InitH, Init, HInv, TypeOK, Consts, NoPoll, Node

THEOREM StepOK == ASSUME StoreFirst = TRUE PROVE HInv /\ [NextH]_hvars => HInv'
<1> SUFFICES ASSUME HInv, [NextH]_hvars PROVE HInv'
  OBVIOUS
<1>p. ASSUME ProdCreate, alive' = alive PROVE HInv'
  <2>1. Len(prod) - 1 \in Node
    BY <1>p DEF ProdCreate, HInv, TypeOK, Node
  <2> QED
    BY <1>p, <2>1, AppendConcat DEF ProdCreate, HInv, TypeOK
<1>b. ASSUME \E h \in Handles : RelayBegin(h) \/ RecvBegin(h), alive' = alive PROVE HInv'
  BY <1>b DEF RelayBegin, RecvBegin, Begin, HInv, TypeOK, Handles
<1>r. ASSUME rpoll.active, alive' = alive,
             LET t == Take(relay, c1, rpoll) IN relay' = t[1] /\ c1' = t[2] /\ rpoll' = t[3],
             UNCHANGED <<prod, recv, lpoll>>,
             \/ (alive /\ c2' = c2 \o Take(relay, c1, rpoll)[4])
             \/ (~alive /\ c2' = c2)
      PROVE HInv'
  <2>1. CASE c1 = <<>>
    BY <1>r, <2>1 DEF Take, HInv, TypeOK
  <2>2. CASE c1 # <<>>
    <3>1. Head(c1) \in Node /\ Tail(c1) \in Seq(Node)
      BY <2>2 DEF HInv, TypeOK
    <3>2. relay' = Append(relay, Head(c1)) /\ c1' = Tail(c1) /\ recv' = recv /\ prod' = prod /\ lpoll' = lpoll
          /\ Take(relay, c1, rpoll)[4] = <<Head(c1)>>
      BY <1>r, <2>2 DEF Take
    <3>3. relay' \o c1' = prod'
      BY <3>1, <3>2, <2>2, HeadTailConcat DEF HInv, TypeOK
    <3>4. alive' => recv' \o c2' = relay'
      BY <1>r, <3>1, <3>2 DEF HInv, TypeOK
    <3>5. TypeOK'
      BY <1>r, <2>2, <3>1, <3>2 DEF Take, HInv, TypeOK
    <3> QED
      BY <3>3, <3>4, <3>5 DEF HInv
  <2> QED
    BY <2>1, <2>2
<1>l. ASSUME RecvTake, alive, alive' = alive PROVE HInv'
  <2>1. CASE c2 = <<>>
    BY <1>l, <2>1 DEF RecvTake, Take, HInv, TypeOK
  <2>2. CASE c2 # <<>>
    <3>1. Head(c2) \in Node /\ Tail(c2) \in Seq(Node)
      BY <2>2 DEF HInv, TypeOK
    <3>2. recv' = Append(recv, Head(c2)) /\ c2' = Tail(c2) /\ relay' = relay /\ c1' = c1 /\ prod' = prod /\ rpoll' = rpoll
      BY <1>l, <2>2 DEF RecvTake, Take
    <3>3. recv' \o c2' = relay'
      BY <1>l, <3>1, <3>2, <2>2, HeadTailConcat DEF HInv, TypeOK
    <3> QED
      BY <1>l, <2>2, <3>1, <3>2, <3>3 DEF RecvTake, Take, HInv, TypeOK
  <2> QED
    BY <2>1, <2>2
<1>1. CASE alive /\ Next /\ UNCHANGED alive
  <2>1. CASE ProdCreate
    BY <1>1, <2>1, <1>p
  <2>2. CASE \E h \in Handles : RelayBegin(h) \/ RecvBegin(h)
    BY <1>1, <2>2, <1>b
  <2>3. CASE RelayTake
    BY <1>1, <2>3, <1>r DEF RelayTake
  <2>4. CASE RecvTake
    BY <1>1, <2>4, <1>l
  <2> QED
    BY <1>1, <2>1, <2>2, <2>3, <2>4 DEF Next
<1>2. CASE HangUp
  BY <1>2 DEF HangUp, HInv, TypeOK
<1>3. CASE ~alive /\ (ProdCreate \/ (\E h \in Handles : RelayBegin(h)) \/ RelayTakeDead) /\ UNCHANGED alive
  <2>1. CASE ProdCreate
    BY <1>3, <2>1, <1>p
  <2>2. CASE \E h \in Handles : RelayBegin(h)
    BY <1>3, <2>2, <1>b
  <2>3. CASE RelayTakeDead
    BY <1>3, <2>3, <1>r DEF RelayTakeDead
  <2> QED
    BY <1>3, <2>1, <2>2, <2>3
<1>4. CASE UNCHANGED hvars
  BY <1>4 DEF hvars, vars, HInv, TypeOK
<1> QED
  BY <1>1, <1>2, <1>3, <1>4 DEF NextH

THEOREM RelayMirrorsAlways == ASSUME StoreFirst = TRUE PROVE SpecH => []HInv
  BY InitOK, StepOK, PTL DEF SpecH

LEMMA ConcatPrefix == ASSUME NEW S, NEW a \in Seq(S), NEW b \in Seq(S)
                      PROVE IsPrefix(a, a \o b)
  BY DEF IsPrefix

THEOREM RelayPrefix == HInv => IsPrefix(relay, prod)
  BY ConcatPrefix DEF HInv, TypeOK
=============================================================================
