---------------------------- MODULE FrontendProof ----------------------------
(***************************************************************************)
(* TLAPS: the core of C19 - "the relay's table followed by what is still   *)
(* in its inbox is the producer's table, and likewise for the receiver" -  *)
(* is an inductive invariant of the streaming chain for ANY stream length  *)
(* and any interleaving (the TLC runs are bounded to 6 / 9 nodes).         *)
(***************************************************************************)
EXTENDS Frontend, Integers, SequenceTheorems, TLAPS

Node == Int \cup {"BOT", "TOP"}
TypeOK == /\ prod \in Seq(Node) /\ c1 \in Seq(Node) /\ relay \in Seq(Node) /\ c2 \in Seq(Node) /\ recv \in Seq(Node)
          /\ rpoll \in [active : BOOLEAN, h : Nat, res : {"none", "found", "notfound"}]
          /\ lpoll \in [active : BOOLEAN, h : Nat, res : {"none", "found", "notfound"}]

Chain == relay \o c1 = prod /\ recv \o c2 = relay
IndInv == TypeOK /\ Chain

LEMMA AppendConcat == ASSUME NEW S, NEW a \in Seq(S), NEW b \in Seq(S), NEW x \in S
                      PROVE a \o Append(b, x) = Append(a \o b, x)
  OBVIOUS

LEMMA HeadTailConcat == ASSUME NEW S, NEW a \in Seq(S), NEW b \in Seq(S), b # <<>>
                        PROVE Append(a, Head(b)) \o Tail(b) = a \o b
  OBVIOUS

THEOREM InitOK == Init => IndInv
  BY DEF Init, IndInv, TypeOK, Chain, Consts, NoPoll, Node

THEOREM StepOK == IndInv /\ [Next]_vars => IndInv'
<1> SUFFICES ASSUME IndInv, [Next]_vars PROVE IndInv'
  OBVIOUS
<1>1. CASE ProdCreate
  <2>1. Len(prod) - 1 \in Node
    BY <1>1 DEF ProdCreate, IndInv, TypeOK, Node
  <2> QED
    BY <1>1, <2>1, AppendConcat DEF ProdCreate, IndInv, TypeOK, Chain
<1>2. CASE \E h \in Handles : RelayBegin(h) \/ RecvBegin(h)
  BY <1>2 DEF RelayBegin, RecvBegin, Begin, IndInv, TypeOK, Chain, Handles
<1>3. CASE RelayTake
  <2>1. CASE c1 = <<>>
    BY <1>3, <2>1 DEF RelayTake, Take, IndInv, TypeOK, Chain
  <2>2. CASE c1 # <<>>
    <3>1. Head(c1) \in Node /\ Tail(c1) \in Seq(Node)
      BY <2>2 DEF IndInv, TypeOK
    <3>2. relay' = Append(relay, Head(c1)) /\ c1' = Tail(c1) /\ c2' = c2 \o <<Head(c1)>> /\ recv' = recv /\ prod' = prod /\ lpoll' = lpoll
      BY <1>3, <2>2 DEF RelayTake, Take
    <3>3. relay' \o c1' = prod'
      BY <3>1, <3>2, <2>2, HeadTailConcat DEF IndInv, TypeOK, Chain
    <3>4. recv' \o c2' = relay'
      BY <3>1, <3>2 DEF IndInv, TypeOK, Chain
    <3> QED
      BY <1>3, <2>2, <3>1, <3>2, <3>3, <3>4 DEF RelayTake, Take, IndInv, TypeOK, Chain
  <2> QED
    BY <2>1, <2>2
<1>4. CASE RecvTake
  <2>1. CASE c2 = <<>>
    BY <1>4, <2>1 DEF RecvTake, Take, IndInv, TypeOK, Chain
  <2>2. CASE c2 # <<>>
    <3>1. Head(c2) \in Node /\ Tail(c2) \in Seq(Node)
      BY <2>2 DEF IndInv, TypeOK
    <3>2. recv' = Append(recv, Head(c2)) /\ c2' = Tail(c2) /\ relay' = relay /\ c1' = c1 /\ prod' = prod /\ rpoll' = rpoll
      BY <1>4, <2>2 DEF RecvTake, Take
    <3>3. recv' \o c2' = relay'
      BY <3>1, <3>2, <2>2, HeadTailConcat DEF IndInv, TypeOK, Chain
    <3> QED
      BY <1>4, <2>2, <3>1, <3>2, <3>3 DEF RecvTake, Take, IndInv, TypeOK, Chain
  <2> QED
    BY <2>1, <2>2
<1>5. CASE UNCHANGED vars
  BY <1>5 DEF vars, IndInv, TypeOK, Chain
<1> QED
  BY <1>1, <1>2, <1>3, <1>4, <1>5 DEF Next

THEOREM ChainAlways == Spec => []IndInv
  BY InitOK, StepOK, PTL DEF Spec

(* the prefix formulation of C19 follows from the chain equations *)
LEMMA ConcatPrefix == ASSUME NEW S, NEW a \in Seq(S), NEW b \in Seq(S)
                      PROVE IsPrefix(a, a \o b)
  BY DEF IsPrefix

THEOREM PrefixFromChain == IndInv => PrefixInv
  <1> SUFFICES ASSUME IndInv PROVE PrefixInv
    OBVIOUS
  <1>1. IsPrefix(relay, relay \o c1) /\ IsPrefix(recv, recv \o c2)
    BY ConcatPrefix DEF IndInv, TypeOK
  <1> QED
    BY <1>1 DEF IndInv, Chain, PrefixInv

(* the answer rule of Bdd::recv: found iff the handle is in the table afterwards *)
Pending == /\ rpoll.active => ~(rpoll.h < Len(relay))
           /\ lpoll.active => ~(lpoll.h < Len(recv))
IndInv2 == IndInv /\ Pending /\ FoundRule

THEOREM Init2 == Init => IndInv2
  BY InitOK DEF Init, IndInv2, Pending, FoundRule, NoPoll

THEOREM Step2 == IndInv2 /\ [Next]_vars => IndInv2'
<1> SUFFICES ASSUME IndInv2, [Next]_vars PROVE IndInv2'
  OBVIOUS
<1>0. IndInv'
  BY StepOK DEF IndInv2
<1>a. TypeOK /\ Pending /\ FoundRule
  BY DEF IndInv2, IndInv
<1>b. SUFFICES Pending' /\ FoundRule'
  BY <1>0 DEF IndInv2
<1>1. CASE ProdCreate
  BY <1>1, <1>a DEF ProdCreate, Pending, FoundRule
<1>2. CASE \E h \in Handles : RelayBegin(h) \/ RecvBegin(h)
  BY <1>2, <1>a DEF RelayBegin, RecvBegin, Begin, Pending, FoundRule, Handles, TypeOK
<1>3. CASE RelayTake
  <2>1. CASE c1 = <<>>
    BY <1>3, <2>1, <1>a DEF RelayTake, Take, Pending, FoundRule, TypeOK
  <2>2. CASE c1 # <<>>
    <3>1. relay' = Append(relay, Head(c1)) /\ recv' = recv /\ lpoll' = lpoll
          /\ rpoll' = IF Len(relay) = rpoll.h THEN [rpoll EXCEPT !.active = FALSE, !.res = "found"] ELSE rpoll
      BY <1>3, <2>2 DEF RelayTake, Take
    <3>2. Len(relay') = Len(relay) + 1
      BY <3>1, <1>a DEF TypeOK
    <3> QED
      BY <3>1, <3>2, <1>a DEF Pending, FoundRule, TypeOK
  <2> QED
    BY <2>1, <2>2
<1>4. CASE RecvTake
  <2>1. CASE c2 = <<>>
    BY <1>4, <2>1, <1>a DEF RecvTake, Take, Pending, FoundRule, TypeOK
  <2>2. CASE c2 # <<>>
    <3>1. recv' = Append(recv, Head(c2)) /\ relay' = relay /\ rpoll' = rpoll
          /\ lpoll' = IF Len(recv) = lpoll.h THEN [lpoll EXCEPT !.active = FALSE, !.res = "found"] ELSE lpoll
      BY <1>4, <2>2 DEF RecvTake, Take
    <3>2. Len(recv') = Len(recv) + 1
      BY <3>1, <1>a DEF TypeOK
    <3> QED
      BY <3>1, <3>2, <1>a DEF Pending, FoundRule, TypeOK
  <2> QED
    BY <2>1, <2>2
<1>5. CASE UNCHANGED vars
  BY <1>5, <1>a DEF vars, Pending, FoundRule
<1> QED
  BY <1>1, <1>2, <1>3, <1>4, <1>5 DEF Next

THEOREM C19Always == Spec => [](PrefixInv /\ FoundRule)
  <1>1. Spec => []IndInv2
    BY Init2, Step2, PTL DEF Spec
  <1>2. IndInv2 => PrefixInv /\ FoundRule
    BY PrefixFromChain DEF IndInv2
  <1> QED
    BY <1>1, <1>2, PTL
=============================================================================
