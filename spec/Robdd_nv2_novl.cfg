SPECIFICATION Spec
CONSTANTS NV = 2
          MaxNodes = 0
          VariableList = FALSE
          AdHocCounting = TRUE
          AdHocModels = FALSE
INVARIANTS Inv TopBotOK
PROPERTIES StepProp
VIEW View
CHECK_DEADLOCK FALSE
