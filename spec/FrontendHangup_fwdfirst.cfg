SPECIFICATION SpecH
CONSTANTS MaxNodes = 4
  StoreFirst = FALSE
INVARIANTS RelayInv AliveInv DeadInv
CHECK_DEADLOCK FALSE
