SPECIFICATION Spec
CONSTANTS Deep = FALSE
INVARIANTS RoundTrip LenientAgrees DamageRejected
CHECK_DEADLOCK FALSE
