---------------------------- MODULE Trace_Frontend ----------------------------
(***************************************************************************)
(* Trace validator for the real streaming mirror (C19).                    *)
(* Verdicts (on observed tables): every observed relay / receiver table is *)
(* the producer's final table cut after (messages consumed + 2) nodes;     *)
(* found <=> handle present after the poll; after the drain all tables are *)
(* identical; the stream carries every fresh node exactly once, in order.  *)
(* Drift: the model's Begin/Take steps (Frontend.tla) are iterated on the  *)
(* model state and must predict found-flags and table lengths.             *)
(***************************************************************************)
EXTENDS Frontend, Json, IOUtils

Rec == ndJsonDeserialize(IOEnv.TRACE)
VARIABLE l

Report(ok, id, what, i) == ok \/ PrintT(<<"MISMATCH", l, id, "C19", what, i>>)

\* iterate Take until the poll is finished (the code's loop)
RECURSIVE RunPoll(_, _, _, _)
RunPoll(table, inbox, poll, fwd) ==
  IF ~poll.active THEN << table, inbox, poll, fwd >>
  ELSE LET t == Take(table, inbox, poll) IN RunPoll(t[1], t[2], t[3], fwd \o t[4])

\* model state: [f (forwarded so far), relay, c1, recv, c2] over abstract node ids 0,1,2,...
RECURSIVE Walk(_, _, _, _)
Walk(r, i, m, ok) ==
  IF i > Len(r.steps) THEN ok
  ELSE LET s == r.steps[i] IN
       IF s.a = "fwd" THEN Walk(r, i + 1, [m EXCEPT !.f = @ + 1, !.c1 = Append(@, m.f + 1)], ok)
       ELSE IF s.a = "hangup" THEN Walk(r, i + 1, [m EXCEPT !.alive = FALSE, !.c2 = <<>>], ok)     \* FrontendHangup!HangUp
       ELSE
       LET isRelay == s.a = "relay"
           p == IF isRelay THEN RunPoll(m.relay, m.c1, Begin(Len(m.relay), s.h), <<>>)
                           ELSE RunPoll(m.recv, m.c2, Begin(Len(m.recv), s.h), <<>>)
           m2 == IF isRelay THEN [m EXCEPT !.relay = p[1], !.c1 = p[2], !.c2 = IF m.alive THEN @ \o p[4] ELSE <<>>]   \* RelayTake / RelayTakeDead
                            ELSE [m EXCEPT !.recv = p[1], !.c2 = p[2]]
           n == s.nodes
           \* messages consumed so far, from the observed channel lengths
           kRelay == m.f - s.c1
           k == IF isRelay THEN kRelay ELSE kRelay - s.c2
           v == /\ Report(Len(n) <= Len(r.prod) /\ n = SubSeq(r.prod, 1, Len(n)), r.id, "not-a-prefix-of-producer", i)
                /\ Report(Len(n) = k + 2, r.id, "table-length-vs-consumed", i)
                /\ Report(s.found = (s.h < Len(n)), r.id, "found-flag", i)
                /\ ((s.found = (p[3].res = "found") /\ Len(n) = Len(p[1])) \/ PrintT(<<"DRIFT", l, r.id, "poll", i>>))
       IN Walk(r, i + 1, m2, ok /\ v)

CheckThreads(r) ==
  \A i \in DOMAIN r.steps :
    LET s == r.steps[i]  n == s.nodes IN
    /\ Report(Len(n) <= Len(r.prod) /\ n = SubSeq(r.prod, 1, Len(n)), r.id, "not-a-prefix-of-producer", i)
    /\ Report(s.found = (s.h < Len(n)), r.id, "found-flag", i)

\* per observer, tables only grow
MonotoneObs(r, who) ==
  \A i, j \in DOMAIN r.steps : (i < j /\ r.steps[i].a = who /\ r.steps[j].a = who) => Len(r.steps[i].nodes) <= Len(r.steps[j].nodes)

Check(r) ==
  /\ Report(r.stream = SubSeq(r.prod, 3, Len(r.prod)), r.id, "stream-differs-from-table", 0)
  /\ IF r.mode = "scheduled"
     THEN Walk(r, 1, [f |-> 0, relay |-> Consts, c1 |-> <<>>, recv |-> Consts, c2 |-> <<>>, alive |-> TRUE], TRUE)
     ELSE CheckThreads(r)
  /\ Report(MonotoneObs(r, "relay") /\ MonotoneObs(r, "recv"), r.id, "table-shrank", 0)
  /\ Report(r.final_relay = r.prod, r.id, "relay-differs-at-quiescence", 0)
  \* the last store may have been dropped in the middle of the run (hang-up): the relay's duties are unchanged, the dropped store has none
  /\ Report(r.hung \/ r.final_recv = r.prod, r.id, "receiver-differs-at-quiescence", 0)

Init2 == l = 1
Next2 == /\ l <= Len(Rec)
         /\ (IF Rec[l].kind = "frontend" THEN Check(Rec[l]) ELSE Report(FALSE, Rec[l].id, "panic", 0)) \in BOOLEAN
         /\ l' = l + 1
         /\ UNCHANGED vars
TraceSpec == Init /\ Init2 /\ [][Next2]_<<l, vars>>
Consumed == (TLCGet("stats").diameter - 1 = Len(Rec))
              \/ PrintT(<<"NOTCONSUMED", TLCGet("stats").diameter, Len(Rec)>>)
=============================================================================
