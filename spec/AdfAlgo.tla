------------------------------- MODULE AdfAlgo -------------------------------
(***************************************************************************)
(* The semantics ALGORITHMS of lib/src/adf.rs (and, where they differ, of  *)
(* lib/src/adfbiodivine.rs), transcribed over Boolean functions as truth   *)
(* tables.  "restrict" is the semantic cofactor, "is_truth_value" is       *)
(* "constant function" - which is what the handle test means on a          *)
(* canonical store (C06).  The module is compared with AdfSem by TLC.      *)
(***************************************************************************)
EXTENDS AdfSem, Iterators

IsConst(f, n) == f = {} \/ f = Assign(n)
TV3(f, n) == IF f = Assign(n) THEN "T" ELSE IF f = {} THEN "F" ELSE "U"
ToInterp(I, n) == [s \in 1..n |-> TV3(I[s], n)]
DecidedOf(I, n) == { s \in 1..n : IsConst(I[s], n) }
TrueOnes(I, n) == { s \in 1..n : I[s] = Assign(n) }

\* Bdd::restrict folded over a set D of variables with the true ones T (cofactor)
RestrictAll(f, D, T, n) == { A \in Assign(n) : ((A \ D) \cup T) \in f }

(***************************************************************************)
(* Adf::grounded_internal: Jacobi rounds on the snapshot of the previous   *)
(* round; leaves the loop when the number of constants stops growing.      *)
(***************************************************************************)
GroundRound(I, n) ==
  LET D == DecidedOf(I, n)  T == TrueOnes(I, n) IN
  [s \in 1..n |-> IF IsConst(I[s], n) THEN I[s] ELSE RestrictAll(I[s], D, T, n)]

RECURSIVE GroundedInternal(_, _)
GroundedInternal(I, n) ==
  LET J == GroundRound(I, n) IN
  IF Cardinality(DecidedOf(J, n)) = Cardinality(DecidedOf(I, n)) THEN J ELSE GroundedInternal(J, n)

GroundedAlgo(tt, n) == ToInterp(GroundedInternal(tt, n), n)

(***************************************************************************)
(* Adf::complete: three-valued odometer over the grounded vector, filtered *)
(* by "every position has the information value of its restricted ac".     *)
(***************************************************************************)
ApplyV(f, v, n) == RestrictAll(f, { s \in 1..n : v[s] # "U" }, { s \in 1..n : v[s] = "T" }, n)
CompleteFilter(tt, v, n) == \A s \in 1..n : v[s] = TV3(ApplyV(tt[s], v, n), n)
CompleteAlgo(tt, n) == SelectSeq(Seq3(GroundedAlgo(tt, n)), LAMBDA v : CompleteFilter(tt, v, n))

(***************************************************************************)
(* Adf::stable / stability_check: two-valued odometer over the grounded    *)
(* vector; the reduct restricts by the FALSE statements only; the candidate*)
(* passes when grounded_internal of the reduct has the same information    *)
(* value on ALL positions.                                                 *)
(***************************************************************************)
ReductAlgo(tt, v, n) == LET FS == { s \in 1..n : v[s] = "F" } IN
                        [s \in 1..n |-> RestrictAll(tt[s], FS, {}, n)]
StabilityCheck(tt, v, n) == ToInterp(GroundedInternal(ReductAlgo(tt, v, n), n), n) = v
StableAlgo(tt, n) == SelectSeq(Seq2(GroundedAlgo(tt, n)), LAMBDA v : StabilityCheck(tt, v, n))

\* stable_with_prefilter: candidates must first be two-valued models
PrefilterAlgo(tt, n) ==
  SelectSeq(Seq2(GroundedAlgo(tt, n)),
            LAMBDA v : CompleteFilter(tt, v, n) /\ StabilityCheck(tt, v, n))

\* stable_bdd_representation: candidates = satisfying valuations of /\ (s <=> ac_s)
RewriteCandidates(tt, n) == { AsInterp(A, n) : A \in { B \in Assign(n) : \A s \in 1..n : (s \in B) <=> (B \in tt[s]) } }
RewriteAlgo(tt, n) == { v \in RewriteCandidates(tt, n) : StabilityCheck(tt, v, n) }

\* hybrid_step: the naive ADF is built from the acs restricted by the biodivine grounded interpretation
HybridAcs(tt, n) == GroundedInternal(tt, n)
=============================================================================
