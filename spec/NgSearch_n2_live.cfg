SPECIFICATION FairSpec
CONSTANTS N = 2
          AdfSetKind = "all"
          TwoValMode = FALSE
          Contract = TRUE
          FixedFoldC = FALSE
INVARIANTS Exact LockStep Bounded
PROPERTIES Terminates
CHECK_DEADLOCK FALSE
