SPECIFICATION FairSpec
CONSTANTS N = 2
          AdfSetKind = "all"
          TwoValMode = FALSE
          Contract = TRUE
          FixedFoldC = TRUE
INVARIANTS Exact LockStep Bounded
PROPERTIES Terminates
CHECK_DEADLOCK FALSE
