SPECIFICATION TraceSpec
POSTCONDITION Consumed
CHECK_DEADLOCK FALSE
