SPECIFICATION TraceSpec
CONSTANTS N = 3
          AdfSetKind = "all"
          TwoValMode = TRUE
          Contract = TRUE
          FixedFoldC = TRUE
INVARIANTS AtEnd
CHECK_DEADLOCK FALSE
