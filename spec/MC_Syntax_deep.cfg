SPECIFICATION Spec
CONSTANTS Deep = TRUE
INVARIANTS RoundTrip LenientAgrees DamageRejected
CHECK_DEADLOCK FALSE
