------------------------------ MODULE Trace_Bdd ------------------------------
(***************************************************************************)
(* Trace validator for observations of real Bdd objects.                   *)
(*  - property level (verdicts): every logged node table / memo-table dump *)
(*    / query answer is judged against the definitional notions of         *)
(*    RobddOps (denotation by walking the LOGGED table);                   *)
(*  - model level (drift only): the implementation-level store model is    *)
(*    stepped with the same operation from the same pre-state and must     *)
(*    predict the logged post-state exactly (handle numbers, node order,   *)
(*    every memo entry).                                                   *)
(* Record kinds: reset | op | opaque | persist | query | panic.            *)
(***************************************************************************)
EXTENDS AdfRobddOps, AdfCompose, BigBdd, Json, IOUtils

Rec == ndJsonDeserialize(IOEnv.TRACE)

VARIABLES l, S, prev, synced

vars == <<l, S, prev, synced>>

RangeOf(sq) == { sq[i] : i \in DOMAIN sq }

RECURSIVE MkFn(_, _, _)
\* function from a sequence of entries: first n fields (or field 1) are the key, last is the value
MkFn(sq, i, n) == IF i > Len(sq) THEN EmptyFn
                  ELSE LET e == sq[i]
                           k == IF n = 1 THEN e[1] ELSE SubSeq(e, 1, n) IN
                       (k :> e[n + 1]) @@ MkFn(sq, i + 1, n)

FromDump(r) ==
  [nodes |-> r.nodes,
   uniq  |-> MkFn(r.dump.uniq, 1, 1),
   ite   |-> MkFn(r.dump.ite, 1, 3),
   rc    |-> MkFn(r.dump.rc, 1, 3),
   deps  |-> [i \in DOMAIN r.dump.deps |-> RangeOf(r.dump.deps[i])],
   cnt   |-> MkFn([i \in DOMAIN r.dump.cnt |-> << r.dump.cnt[i][1], SubSeq(r.dump.cnt[i], 2, 6) >>], 1, 1)]

FnSet(f) == { <<k, f[k]>> : k \in DOMAIN f }

\* ---------------------------------------------------------------- property-level predicates on observations
Dtab(ns, nv) == [h \in HandlesN(ns) |-> DenN(ns, h, nv)]

TableOKD(ns, nv, D) ==
  /\ ConstOK(ns) /\ Reduced(ns) /\ Ordered(ns, nv) /\ NoDupNodes(ns)
  /\ \A h1, h2 \in HandlesN(ns) : D[h1] = D[h2] => h1 = h2
  /\ D[1] = Universe(nv) /\ D[0] = {}

UniqOKobs(r) ==
  { <<e[1], e[2]>> : e \in RangeOf(r.dump.uniq) } = { <<r.nodes[h + 1], h>> : h \in 2..(Len(r.nodes) - 1) }

InH(ns, h) == h \in HandlesN(ns)

CachesOKobs(r, D) ==
  LET U == Universe(r.nv)  ns == r.nodes IN
  /\ \A e \in RangeOf(r.dump.ite) :
        /\ InH(ns, e[1]) /\ InH(ns, e[2]) /\ InH(ns, e[3]) /\ InH(ns, e[4])
        /\ D[e[4]] = IteSem(D[e[1]], D[e[2]], D[e[3]], U)
  /\ \A e \in RangeOf(r.dump.rc) :
        /\ InH(ns, e[1]) /\ InH(ns, e[4])
        /\ D[e[4]] = Cofactor(D[e[1]], e[2], e[3], U)

DepsOKobs(r, D) ==
  r.feat.variablelist =>
    /\ Len(r.dump.deps) = Len(r.nodes)
    /\ \A h \in HandlesN(r.nodes) : RangeOf(r.dump.deps[h + 1]) = DepSet(D[h], r.nv)

CountsOKobs(r, D) ==
  r.feat.adhoccounting =>
    /\ { e[1] : e \in RangeOf(r.dump.cnt) } = HandlesN(r.nodes)
    /\ \A e \in RangeOf(r.dump.cnt) :
         LET h == e[1]  d == Depth(r.nodes, h) IN
         /\ e[4] = PathsTo(r.nodes, h, 0) /\ e[5] = PathsTo(r.nodes, h, 1) /\ e[6] = d
         /\ r.feat.adhoccountmodels => /\ e[2] + e[3] = Pow2(d)
                                       /\ e[3] * Pow2(r.nv) = Cardinality(D[h]) * Pow2(d)

StepOKobs(r, D) ==
  LET U == Universe(r.nv)  ns == r.nodes IN
  /\ InH(ns, r.r)
  /\ CASE r.op = "var"      -> D[r.r] = { A \in U : r.v \in A }
       [] r.op = "restrict" -> InH(ns, r.a) /\ D[r.r] = Cofactor(D[r.a], r.v, r.val, U)
       [] r.op = "not"      -> InH(ns, r.a) /\ D[r.r] = U \ D[r.a]
       [] OTHER             -> InH(ns, r.a) /\ InH(ns, r.b) /\ D[r.r] = SemOp(r.op, D[r.a], D[r.b], U)

Report(ok, id, prop, what) == ok \/ PrintT(<<"MISMATCH", l, id, prop, what>>)

AuditTables(r, D) ==
  /\ Report(TableOKD(r.nodes, r.nv, D), r.id, "C06", "table")
  /\ Report(UniqOKobs(r), r.id, "C06", "uniq")
  /\ Report(CachesOKobs(r, D), r.id, "C11", "memo")
  /\ Report(DepsOKobs(r, D), r.id, "C13", "deps-list")
  /\ Report(CountsOKobs(r, D), r.id, "C13", "count-cache")

\* ---------------------------------------------------------------- C13 queries
CubeSet(c, U) == { A \in U : RangeOf(c[1]) \cap A = {} /\ RangeOf(c[2]) \subseteq A }
CubesOK(q, f, U) ==
  LET cs == q.cubes
      G  == { A \in U : (q.gv \in A) = q.goal } IN
  /\ \A i, j \in DOMAIN cs : i # j => CubeSet(cs[i], U) \cap CubeSet(cs[j], U) = {}
  /\ (UNION { CubeSet(cs[i], U) : i \in DOMAIN cs }) \cap G = { A \in G : (A \in f) = q.goal }

ModelsOK(mc, f, d, nv) == mc[1] + mc[2] = Pow2(d) /\ mc[2] * Pow2(nv) = Cardinality(f) * Pow2(d)

CheckQuery(r) ==
  LET ns == r.nodes  nv == r.nv  U == Universe(nv)
      f == DenN(ns, r.h, nv)
      d == Depth(ns, r.h)
      pc == <<PathsTo(ns, r.h, 0), PathsTo(ns, r.h, 1)>>
      exception == r.feat.adhoccounting /\ ~r.feat.adhoccountmodels     \* the documented memoisation exception
      tl == r.termlist
  IN
  /\ Report(r.paths_memo = pc /\ r.paths_naive = pc, r.id, "C13", "paths")
  /\ Report(ModelsOK(r.models_naive, f, d, nv), r.id, "C13", "models-naive")
  /\ Report(exception \/ ModelsOK(r.models_memo, f, d, nv), r.id, "C13", "models-memo")
  /\ Report(r.depth = d, r.id, "C13", "depth")
  /\ Report(RangeOf(r.deps) = DepSet(f, nv) /\ Len(r.deps) = Cardinality(DepSet(f, nv)), r.id, "C13", "deps")
  /\ Report(r.passive = Cardinality({ i \in DOMAIN tl : r.ivar \in DepSet(DenN(ns, tl[i], nv), nv) }), r.id, "C13", "passive")
  /\ Report(r.active = Cardinality({ i \in 0..(Len(tl) - 1) : i \in DepSet(DenN(ns, tl[r.ivar + 1], nv), nv) }), r.id, "C13", "active")
  \* constant diagrams have no decision path; the library's own test pins "no cube" for them: DONT_CARE
  /\ Report(r.h <= 1 \/ \A i \in DOMAIN r.cubes : CubesOK(r.cubes[i], f, U), r.id, "C13", "cubes")
  /\ Report(r.more_models_paths = (r.paths_memo[2] >= r.paths_memo[1])
            /\ r.more_models_models = (r.models_naive[2] >= r.models_naive[1]), r.id, "C13", "more_models")


\* ---------------------------------------------------------------- C11 / C14: call histories on one Adf object
TVv(vec) == [j \in DOMAIN vec |-> IF vec[j] = 1 THEN "T" ELSE IF vec[j] = 0 THEN "F" ELSE "U"]
TVs(rs) == [i \in DOMAIN rs |-> TVv(rs[i])]
SemKinds == {"grounded", "complete", "stable", "prefilter", "count_a", "count_b", "rew", "ng", "ngr", "twoval"}

SemAnswerOK(c, tvs, G, CO, ST, TW) ==
  CASE c.c = "grounded" -> tvs = <<G>>
    [] c.c = "complete" -> ExactlyOnce(tvs, CO) /\ Len(tvs) >= 1 /\ tvs[1] = G
    [] c.c = "twoval"   -> ExactlyOnce(tvs, TW)
    [] OTHER            -> ExactlyOnce(tvs, ST)

CheckHist(r) ==
  LET n  == r.n
      tt == TTs(r.asts, n)
      G  == Grounded(tt, n)
      CO == Complete(tt, n)
      TW == TwoValDirect(tt, n)
      ST == { v \in TW : IsStable(tt, v, n) }
      p  == r.persist
  IN
  /\ \A i \in DOMAIN r.calls :
       LET c == r.calls[i] IN
       \* (a) the answer after the history is the specified answer (a function of the ADF alone) and equals the fresh one
       /\ Report(c.a_st = "ok" /\ c.f_st = "ok", r.id, "C11", <<"status", i, c.c>>)
       /\ (c.c \in SemKinds /\ c.a_st = "ok" /\ c.f_st = "ok") =>
             /\ Report(SemAnswerOK(c, TVs(c.a), G, CO, ST, TW), r.id, "C11", <<"answer-after-history", i, c.c, c.h>>)
             /\ Report(Range(TVs(c.a)) = Range(TVs(c.f)) /\ Len(c.a) = Len(c.f), r.id, "C11", <<"differs-from-fresh", i, c.c, c.h>>)
       /\ (c.c \in {"formulacounts", "facet"}) => Report(c.a = c.f, r.id, "C11", <<"counts-differ-from-fresh", i, c.c>>)
       \* (b) repeating the same history reproduces the same answers in the same order, handles included
       /\ Report(c.a = c.b /\ c.a_st = c.b_st, r.id, "C11", <<"not-deterministic", i, c.c, c.h>>)
       \* C14: the persisted copy continues with equal answers
       /\ (c.cp_st # "na") =>
             /\ Report(c.cp_st = "ok" /\ (c.c \in SemKinds => Range(TVs(c.cp)) = Range(TVs(c.a)) /\ Len(c.cp) = Len(c.a))
                        /\ (c.c \in {"formulacounts", "facet"} => c.cp = c.a),
                        r.id, "C14", <<"copy-answer", i, c.c, c.h>>)
             \* the copy has the original's node numbering and unique table, so it must answer with the very same handles
             /\ Report(c.cp_st # "ok" \/ c.cp = c.a, r.id, "C14", <<"copy-answers-with-other-handles", i, c.c, c.h>>)
  /\ Report(r.final_ac = r.init_ac, r.id, "C11", "ac-modified")
  /\ (p.how # "none") =>
       /\ Report(p.copy_nodes = p.orig_nodes, r.id, "C14", <<"node-numbering", p.how>>)
       /\ Report(p.copy_ac = p.orig_ac, r.id, "C14", <<"roots", p.how>>)
       \* ... and after the same calls its node table is still the original's (nothing persisted is lost, nothing is renumbered)
       /\ Report(r.copy_final = r.orig_final, r.id, "C14", <<"copy-node-table-diverges", p.how>>)

\* ---------------------------------------------------------------- deep frameworks (40-100 statements), record kind "histdeep"
\* C14 on them needs no definition at all: the copy must be the original and answer like it.  C11: where the framework decomposes
\* into constant statements and observers of them (AdfCompose) the answers are judged against the definition as well.
CheckHistDeep(r) ==
  LET p == r.persist  n == r.n
      baseS == { s \in 1..n : Atoms(r.asts[s]) = {} }
      obsS  == (1..n) \ baseS
      blocks == [k \in 1..Cardinality(baseS) |-> << CHOOSE s \in baseS : Cardinality({ t \in baseS : t < s }) = k - 1 >>]
      obs    == [k \in 1..Cardinality(obsS)  |-> CHOOSE s \in obsS  : Cardinality({ t \in obsS : t < s }) = k - 1]
      decomposes == Cardinality(baseS) >= 1 /\ ValidDecomp(r.asts, n, blocks, obs)
  IN
  /\ (p.how # "none") =>
       /\ Report(p.st = "ok", r.id, "C14", <<"round-trip-fails", p.how>>)
       /\ (p.st = "ok") => /\ Report(p.copy_nodes = p.orig_nodes, r.id, "C14", <<"node-numbering", p.how>>)
                           /\ Report(p.copy_ac = p.orig_ac, r.id, "C14", <<"roots", p.how>>)
                           /\ Report(r.copy_final = r.orig_final, r.id, "C14", <<"copy-node-table-diverges", p.how>>)
       /\ \A i \in DOMAIN r.calls : LET c == r.calls[i] IN
            (c.cp_st # "na") => Report(c.cp_st = c.a_st /\ c.cp = c.a, r.id, "C14", <<"copy-answer", i, c.c, c.h>>)
  /\ \A i \in DOMAIN r.calls : Report(r.calls[i].a_st = "ok", r.id, "C11", <<"status", i, r.calls[i].c>>)
  /\ decomposes =>
       LET bs == BlockSem(r.asts, blocks)
           G  == GroundedC(r.asts, n, blocks, obs, bs) IN
       \A i \in DOMAIN r.calls : LET c == r.calls[i]  tvs == TVs(c.a) IN
         (c.a_st = "ok") =>
           Report(CASE c.c = "grounded" -> tvs = <<G>>
                    [] c.c = "complete" -> ExactlyOnceC(tvs, n, r.asts, blocks, obs, bs, "co") /\ Len(tvs) >= 1 /\ tvs[1] = G
                    [] c.c = "twoval"   -> ExactlyOnceC(tvs, n, r.asts, blocks, obs, bs, "tw")
                    [] OTHER            -> ExactlyOnceC(tvs, n, r.asts, blocks, obs, bs, "st"),
                  r.id, "C11", <<"answer-after-history", i, c.c, c.h>>)
  /\ PrintT(<<"HISTDEEP", l, r.id, n, decomposes, p.how>>)

\* ---------------------------------------------------------------- model-level conformance of call histories (drift only)
\* the store-level transcriptions of grounded / complete / stable (AdfRobddOps) and the extra formulas follow the recorded
\* history from the real pre-state and must predict every raw answer (handles and order) and the final node table
Followable == {"grounded", "complete", "stable", "prefilter", "bddop"}

RECURSIVE ExtraOps(_, _, _, _)
ExtraOps(St, ops, i, nv) ==
  IF i > Len(ops) THEN St
  ELSE LET o == ops[i]  n == Len(St.nodes)  a == o[2] % n  b == o[3] % n  k == o[1] % 4 IN
       ExtraOps(CASE k = 0 -> And(St, a, b).S [] k = 1 -> Or(St, a, b).S [] k = 2 -> Xor(St, a, b).S
                  [] OTHER -> Restrict(St, a, o[4] % nv, o[5]).S, ops, i + 1, nv)

RECURSIVE RunCalls(_, _, _, _, _)
RunCalls(St, ac, calls, i, ok) ==
  IF i > Len(calls) \/ ~ok THEN [S |-> St, ok |-> ok, at |-> i]
  ELSE LET c == calls[i] IN
       IF c.c \notin Followable \/ c.a_st # "ok" THEN [S |-> St, ok |-> ok, at |-> 0]     \* cannot follow further (not drift)
       ELSE IF c.c = "bddop" THEN RunCalls(ExtraOps(St, c.ops, 1, Len(ac)), ac, calls, i + 1, ok)
       ELSE LET x == CASE c.c = "grounded" -> LET g == GroundedInternalR(St, ac) IN R(g.S, <<g.r>>)
                       [] c.c = "complete" -> CompleteR(St, ac)
                       [] c.c = "stable"   -> StableR(St, ac)
                       [] c.c = "prefilter" -> PrefilterR(St, ac)
            IN RunCalls(x.S, ac, calls, i + 1, x.r = c.a)

\* Adf::facet_count / Adf::formulacounts: the model-count half is exact for every term, constants included
CheckAdfQuery(r) ==
  LET ns == r.nodes  nv == r.nv IN
  /\ Report(Len(r.facet_models) = Len(r.terms) /\
            \A i \in DOMAIN r.terms : ModelsOK(r.facet_models[i], DenN(ns, r.terms[i], nv), Depth(ns, r.terms[i]), nv),
            r.id, "C13", "facet_count-models")
  /\ Report(\A i \in DOMAIN r.formulacounts : ModelsOK(r.formulacounts[i], DenN(ns, r.terms[i], nv), Depth(ns, r.terms[i]), nv),
            r.id, "C13", "formulacounts")

\* ---------------------------------------------------------------- large stores (record kind "bigseq"), BigBdd operators
CheckBigSeq(r) ==
  LET ns == r.nodes  nv == r.nv  U == AllA(nv) IN
  IF ~Wellformed(ns, nv) THEN Report(FALSE, r.id, "C06", "table-big-malformed")
  ELSE
  LET D  == DenAll(ns, nv)
      H(h) == h \in HN(ns)
      Dn(h) == D[h + 1]
      pb == PathsB(ns, 0, <<>>)  pt == PathsB(ns, 1, <<>>)  dp == DepthB(ns, <<>>)
      MOK(mc, h) == mc[1] + mc[2] = P2(dp[h + 1]) /\ mc[2] * P2(nv) = Cardinality(Dn(h)) * P2(dp[h + 1])
      exception == r.feat.adhoccounting /\ ~r.feat.adhoccountmodels
  IN
  \* C06: reduced, ordered, duplicate-free, same function => same handle, constants
  /\ Report(Reducedb(ns) /\ Orderedb(ns) /\ NoDupb(ns), r.id, "C06", "table-big-structure")
  /\ Report(Canonicalb(D), r.id, "C06", "table-big-canonical")
  /\ Report({ <<e[1], e[2]>> : e \in RangeOf(r.dump.uniq) } = { <<ns[h + 1], h>> : h \in 2..(Len(ns) - 1) }, r.id, "C06", "uniq-big")
  \* C07: the table only grows; every operation returned a handle of the named function of its operands
  /\ Report(\A i \in DOMAIN r.cps : IsPrefix(r.cps[i].nodes, ns) /\ Len(r.cps[i].nodes) = (IF r.cps[i].at = 0 THEN 2 ELSE r.ops[r.cps[i].at].len),
            r.id, "C07", "prefix-big")
  /\ Report(\A i \in DOMAIN r.ops : r.ops[i].len <= Len(ns) /\ (i > 1 => r.ops[i - 1].len <= r.ops[i].len), r.id, "C07", "prefix-big-len")
  /\ \A i \in DOMAIN r.ops :
        LET o == r.ops[i]
            before == IF i = 1 THEN 2 ELSE r.ops[i - 1].len IN
        Report(/\ o.r < o.len /\ o.a < before /\ o.b < before
               /\ CASE o.op = "var"      -> Dn(o.r) = VarFn(o.v, U)
                    [] o.op = "restrict" -> Dn(o.r) = Cofactorb(Dn(o.a), o.v, o.val, U)
                    [] o.op = "not"      -> Dn(o.r) = U \ Dn(o.a)
                    [] OTHER             -> Dn(o.r) = SemOpb(o.op, Dn(o.a), Dn(o.b), U),
               r.id, "C07", <<"big", i, o.op>>)
  \* C11: memo tables of the large store
  /\ Report(\A e \in RangeOf(r.dump.ite) : H(e[1]) /\ H(e[2]) /\ H(e[3]) /\ H(e[4]) /\
                 Dn(e[4]) = { A \in U : IF A \in Dn(e[1]) THEN A \in Dn(e[2]) ELSE A \in Dn(e[3]) }, r.id, "C11", "memo-big-ite")
  /\ Report(\A e \in RangeOf(r.dump.rc) : H(e[1]) /\ H(e[4]) /\ Dn(e[4]) = Cofactorb(Dn(e[1]), e[2], e[3], U), r.id, "C11", "memo-big-restrict")
  \* C13: dependency lists and the count cache of every handle; the queries of a few
  /\ Report(r.feat.variablelist => Len(r.dump.deps) = Len(ns) /\ \A h \in HN(ns) : RangeOf(r.dump.deps[h + 1]) = DepSetb(Dn(h), nv),
            r.id, "C13", "deps-list-big")
  /\ Report(r.feat.adhoccounting =>
              /\ { e[1] : e \in RangeOf(r.dump.cnt) } = HN(ns)
              /\ \A e \in RangeOf(r.dump.cnt) : e[4] = pb[e[1] + 1] /\ e[5] = pt[e[1] + 1] /\ e[6] = dp[e[1] + 1]
                                                /\ (r.feat.adhoccountmodels => MOK(<<e[2], e[3]>>, e[1])),
            r.id, "C13", "count-cache-big")
  /\ \A qi \in DOMAIN r.queries :
        LET q == r.queries[qi]  h == q.h  f == Dn(h)  pc == <<pb[h + 1], pt[h + 1]>>  tl == q.termlist IN
        /\ Report(q.paths_memo = pc /\ q.paths_naive = pc, q.id, "C13", "paths")
        /\ Report(MOK(q.models_naive, h), q.id, "C13", "models-naive")
        /\ Report(exception \/ MOK(q.models_memo, h), q.id, "C13", "models-memo")
        /\ Report(q.depth = dp[h + 1], q.id, "C13", "depth")
        /\ Report(RangeOf(q.deps) = DepSetb(f, nv) /\ Len(q.deps) = Cardinality(DepSetb(f, nv)), q.id, "C13", "deps")
        /\ Report(q.passive = Cardinality({ i \in DOMAIN tl : q.ivar \in DepSetb(Dn(tl[i]), nv) }), q.id, "C13", "passive")
        /\ Report(q.active = Cardinality({ i \in 0..(Len(tl) - 1) : i \in DepSetb(Dn(tl[q.ivar + 1]), nv) }), q.id, "C13", "active")
        /\ Report(h <= 1 \/ \A i \in DOMAIN q.cubes :
                     LET c == q.cubes[i]  cs == c.cubes  G == { A \in U : Bit(A, c.gv) = c.goal } IN
                     /\ \A x, y \in DOMAIN cs : x # y => CubeSetb(cs[x], U) \cap CubeSetb(cs[y], U) = {}
                     /\ (UNION { CubeSetb(cs[x], U) : x \in DOMAIN cs }) \cap G = { A \in G : (A \in f) = c.goal },
                  q.id, "C13", "cubes")
  /\ PrintT(<<"BIGSEQ", l, r.id, nv, Len(ns), Len(r.ops)>>)

\* the two representations of a denotation agree (checked on the small tables): integer A <-> set of its true variables
BigAgrees(ns, nv, D) ==
  ~Wellformed(ns, nv) \/
  LET DB == DenAll(ns, nv) IN
  \A h \in HandlesN(ns) : { { v \in 0..(nv - 1) : Bit(A, v) } : A \in DB[h + 1] } = D[h]

\* ---------------------------------------------------------------- the trace machine
Drift(id, what) == PrintT(<<"DRIFT", l, id, what>>)

AuditOK(r, D) == /\ TableOKD(r.nodes, r.nv, D) /\ UniqOKobs(r) /\ CachesOKobs(r, D)
                 /\ DepsOKobs(r, D) /\ CountsOKobs(r, D)

\* the model is (re)started from an observed state only when that state passed the audit;
\* otherwise step-level conformance is switched off until the next reset (verdicts continue)
Resync(r, D) == IF AuditOK(r, D) THEN /\ S' = FromDump(r) /\ synced' = TRUE
                ELSE /\ S' = S /\ synced' = FALSE

Next ==
  /\ l <= Len(Rec)
  /\ l' = l + 1
  /\ LET r == Rec[l] IN
     CASE r.kind = "reset" ->
            LET D == Dtab(r.nodes, r.nv) IN
            /\ AuditTables(r, D) \in BOOLEAN
            /\ (BigAgrees(r.nodes, r.nv, D) \/ PrintT(<<"SPECBUG", l, r.id, "BigBdd and RobddOps denotations differ">>)) \in BOOLEAN
            /\ Resync(r, D) /\ prev' = r.nodes
       [] r.kind = "op" ->
            LET D == Dtab(r.nodes, r.nv)
                can == synced /\ r.a \in Handles(S) /\ r.b \in Handles(S)
                x == Apply(S, r.op, r.a, r.b, r.v, r.val)          \* the model's prediction from the same pre-state
                same == /\ x.r = r.r /\ x.S.nodes = r.nodes
                        /\ FnSet(x.S.ite) = { <<SubSeq(e, 1, 3), e[4]>> : e \in RangeOf(r.dump.ite) }
                        /\ FnSet(x.S.rc) = { <<SubSeq(e, 1, 3), e[4]>> : e \in RangeOf(r.dump.rc) }
                        /\ FnSet(x.S.uniq) = { <<e[1], e[2]>> : e \in RangeOf(r.dump.uniq) }
            IN
            /\ Report(IsPrefix(prev, r.nodes), r.id, "C07", "prefix") \in BOOLEAN
            /\ Report(StepOKobs(r, D), r.id, "C07", r.op) \in BOOLEAN
            /\ AuditTables(r, D) \in BOOLEAN
            /\ IF can
               THEN /\ (same \/ Drift(r.id, r.op)) \in BOOLEAN
                    /\ S' = IF same THEN x.S ELSE S
                    /\ synced' = same
               ELSE UNCHANGED <<S, synced>>
            /\ prev' = r.nodes
       [] r.kind = "opaque" ->
            LET D == Dtab(r.nodes, r.nv) IN
            \* after a fully followed history the model's node table IS the real one
            /\ ((~synced \/ r.call # "history" \/ S.nodes = r.nodes) \/ PrintT(<<"DRIFT", l, r.id, "final-table-after-history">>)) \in BOOLEAN
            /\ Report(IsPrefix(prev, r.nodes), r.id, "C07", "prefix") \in BOOLEAN
            /\ AuditTables(r, D) \in BOOLEAN
            /\ Resync(r, D) /\ prev' = r.nodes
       [] r.kind = "persist" ->
            LET D == Dtab(r.nodes, r.nv) IN
            /\ Report(r.nodes = r.orig_nodes, r.id, "C14", r.how) \in BOOLEAN
            /\ AuditTables(r, D) \in BOOLEAN
            \* the state a round trip hands back (tables rebuilt by the repair step included) must be a sound store: whatever is wrong
            \* in it - a dependency list that lost a variable, a unique table that lost a node - makes later answers differ
            /\ Report(AuditOK(r, D), r.id, "C14", <<"imported-state", r.how>>) \in BOOLEAN
            /\ Resync(r, D) /\ prev' = r.nodes
       [] r.kind = "hist" ->
            /\ CheckHist(r) \in BOOLEAN
            /\ IF synced /\ r.backend = "native" /\ r.persist.how = "none"
               THEN LET m == RunCalls(S, r.init_ac, r.calls, 1, TRUE) IN
                    /\ (m.ok \/ PrintT(<<"DRIFT", l, r.id, <<"history-call", m.at - 1>> >>)) \in BOOLEAN
                    /\ PrintT(<<"FOLLOWED", l, r.id, IF m.at = 0 THEN "partly" ELSE "fully">>)
                    /\ S' = m.S /\ synced' = (m.ok /\ m.at # 0)
               ELSE S' = S /\ synced' = FALSE
            /\ UNCHANGED prev
       [] r.kind = "histdeep" ->
            /\ CheckHistDeep(r) \in BOOLEAN
            /\ UNCHANGED <<S, prev, synced>>
       [] r.kind = "query" ->
            /\ CheckQuery(r) \in BOOLEAN
            /\ UNCHANGED <<S, prev, synced>>
       [] r.kind = "bigseq" ->
            /\ CheckBigSeq(r) \in BOOLEAN
            /\ UNCHANGED <<S, prev, synced>>
       [] r.kind = "adfquery" ->
            /\ CheckAdfQuery(r) \in BOOLEAN
            /\ UNCHANGED <<S, prev, synced>>
       [] r.kind = "panic" ->
            /\ Report(FALSE, r.id, IF "prop" \in DOMAIN r THEN r.prop ELSE "C06", "panic") \in BOOLEAN
            /\ UNCHANGED <<S, prev, synced>>
       [] OTHER -> UNCHANGED <<S, prev, synced>>          \* statistics records of the harness

Init == l = 1 /\ S = InitStore /\ prev = <<>> /\ synced = FALSE
Spec == Init /\ [][Next]_vars

Consumed == (TLCGet("stats").diameter - 1 = Len(Rec))
              \/ PrintT(<<"NOTCONSUMED", TLCGet("stats").diameter, Len(Rec)>>)
=============================================================================
