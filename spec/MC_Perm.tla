------------------------------- MODULE MC_Perm -------------------------------
(***************************************************************************)
(* The metamorphic relation behind C10 is a THEOREM of the definitions:    *)
(* for every ADF over N statements and every permutation pi of the         *)
(* statements, Sem(pi . adf) = pi . Sem(adf) for the grounded, complete,   *)
(* two-valued and stable semantics.  (Renaming = permutation of positions: *)
(* variable order and labels are presentation.)                            *)
(***************************************************************************)
EXTENDS AdfSem, TLC

CONSTANTS N, FunSet

Funs == IF FunSet = "all" THEN SUBSET Assign(N)
        ELSE { {}, Assign(N) } \cup { { A \in Assign(N) : s \in A } : s \in 1..N } \cup { { A \in Assign(N) : s \notin A } : s \in 1..N }
             \cup { { A \in Assign(N) : 1 \in A /\ 2 \notin A }, { A \in Assign(N) : 2 \in A \/ N \notin A },
                    { A \in Assign(N) : (1 \in A) # (N \in A) }, { A \in Assign(N) : Cardinality(A) >= 2 } }

Perms == { p \in [1..N -> 1..N] : \A i, j \in 1..N : p[i] = p[j] => i = j }

VARIABLES adf, pi
vars == <<adf, pi>>
Init == adf \in [1..N -> Funs] /\ pi \in Perms
Next == UNCHANGED vars
Spec == Init /\ [][Next]_vars

Commutes ==
  LET b == PermTT(adf, pi, N) IN
  /\ Grounded(b, N) = PermInterp(Grounded(adf, N), pi, N)
  /\ Complete(b, N) = { PermInterp(v, pi, N) : v \in Complete(adf, N) }
  /\ TwoValDirect(b, N) = { PermInterp(v, pi, N) : v \in TwoValDirect(adf, N) }
  /\ Stable(b, N) = { PermInterp(v, pi, N) : v \in Stable(adf, N) }
=============================================================================
