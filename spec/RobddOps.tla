------------------------------ MODULE RobddOps ------------------------------
(***************************************************************************)
(* Implementation-level transcription of lib/src/obdd.rs: one shared,      *)
(* append-only node table and its memo tables, threaded through            *)
(* node / restrict / if_then_else and the connectives in the code's call   *)
(* ORDER, so that the module predicts handle NUMBERS, not only functions.  *)
(*                                                                         *)
(* A store is a record                                                     *)
(*   nodes : sequence of <<var, lo, hi>>  (handle h is nodes[h+1])         *)
(*   uniq  : node -> handle               (Bdd.cache)                      *)
(*   ite   : <<i,t,e>> -> handle          (Bdd.ite_cache)                  *)
(*   rc    : <<tree,var,val>> -> handle   (Bdd.restrict_cache)             *)
(*   deps  : sequence of variable sets    (Bdd.var_deps, feature variablelist)*)
(*   cnt   : handle -> <<cmodels, models, cpaths, paths, depth>> (count_cache)*)
(* Cargo features are CONSTANTS.                                           *)
(***************************************************************************)
EXTENDS Naturals, Sequences, FiniteSets, TLC

CONSTANTS VariableList,    \* feature "variablelist"
          AdHocCounting,   \* feature "adhoccounting"
          AdHocModels      \* feature "adhoccountmodels" (implies adhoccounting)

VarBOT == 1000000          \* usize::MAX - 1
VarTOP == 1000001          \* usize::MAX
BOT == 0
TOP == 1

EmptyFn == [x \in {} |-> 0]
CntTop == <<0, 1, 0, 1, 0>>
CntBot == <<1, 0, 1, 0, 0>>

InitStore ==
  [nodes |-> << <<VarBOT, 0, 0>>, <<VarTOP, 1, 1>> >>,
   uniq  |-> EmptyFn, ite |-> EmptyFn, rc |-> EmptyFn,
   deps  |-> << {}, {} >>,
   cnt   |-> IF AdHocCounting THEN (1 :> CntTop) @@ (0 :> CntBot) ELSE EmptyFn]

Size(S) == Len(S.nodes)
NodeAt(S, h) == S.nodes[h + 1]
Handles(S) == 0..(Size(S) - 1)
R(S, r) == [S |-> S, r |-> r]

Pow2(n) == IF n = 0 THEN 1 ELSE 2 ^ n
Max(a, b) == IF a > b THEN a ELSE b
Min(a, b) == IF a < b THEN a ELSE b

\* count entry of a fresh node from its children's entries (Bdd::node, cfg adhoccounting)
CntOf2(lc, hc, models) ==
  LET ld == lc[5]  hd == hc[5]
      le == IF ~models THEN 0 ELSE IF ld > hd THEN 1 ELSE Pow2(hd - ld)
      he == IF ~models THEN 0 ELSE IF ld > hd THEN Pow2(ld - hd) ELSE 1
  IN << lc[1] * le + hc[1] * he, lc[2] * le + hc[2] * he, lc[3] + hc[3], lc[4] + hc[4], Max(ld, hd) + 1 >>

CntOf(lc, hc) == CntOf2(lc, hc, AdHocModels)

\* Bdd::node
MkNode(S, var, lo, hi) ==
  IF lo = hi THEN R(S, lo)
  ELSE LET n == <<var, lo, hi>> IN
       IF n \in DOMAIN S.uniq THEN R(S, S.uniq[n])
       ELSE LET h == Size(S) IN
            R([S EXCEPT !.nodes = Append(@, n),
                        !.uniq  = (n :> h) @@ @,
                        !.deps  = IF VariableList THEN Append(@, S.deps[lo + 1] \cup S.deps[hi + 1] \cup {var}) ELSE @,
                        !.cnt   = IF AdHocCounting THEN (h :> CntOf(S.cnt[lo], S.cnt[hi])) @@ @ ELSE @], h)

\* Bdd::restrict
RECURSIVE Restrict(_, _, _, _)
Restrict(S, tree, var, val) ==
  LET key == <<tree, var, val>> IN
  IF key \in DOMAIN S.rc THEN R(S, S.rc[key])
  ELSE LET node == NodeAt(S, tree) IN
       IF VariableList /\ var \notin S.deps[tree + 1] THEN R(S, tree)
       ELSE IF node[1] > var \/ node[1] >= VarBOT THEN R(S, tree)
       ELSE IF node[1] < var THEN
            LET r1 == Restrict(S, node[2], var, val)
                r2 == Restrict(r1.S, node[3], var, val)
                r3 == MkNode(r2.S, node[1], r1.r, r2.r)
            IN R([r3.S EXCEPT !.rc = (key :> r3.r) @@ @], r3.r)
       ELSE LET r1 == Restrict(S, IF val THEN node[3] ELSE node[2], var, val)
            IN R([r1.S EXCEPT !.rc = (key :> r1.r) @@ @], r1.r)

Min3(a, b, c) == Min(a, Min(b, c))

\* Bdd::if_then_else
RECURSIVE Ite(_, _, _, _)
Ite(S, i, t, e) ==
  IF i = TOP THEN R(S, t)
  ELSE IF i = BOT THEN R(S, e)
  ELSE IF t = e THEN R(S, t)
  ELSE IF t = TOP /\ e = BOT THEN R(S, i)
  ELSE LET key == <<i, t, e>> IN
       IF key \in DOMAIN S.ite THEN R(S, S.ite[key])
       ELSE LET mv == Min3(NodeAt(S, i)[1], NodeAt(S, t)[1], NodeAt(S, e)[1])
                a1 == Restrict(S, i, mv, TRUE)
                a2 == Restrict(a1.S, t, mv, TRUE)
                a3 == Restrict(a2.S, e, mv, TRUE)
                b1 == Restrict(a3.S, i, mv, FALSE)
                b2 == Restrict(b1.S, t, mv, FALSE)
                b3 == Restrict(b2.S, e, mv, FALSE)
                top == Ite(b3.S, a1.r, a2.r, a3.r)
                bot == Ite(top.S, b1.r, b2.r, b3.r)
                res == MkNode(bot.S, mv, bot.r, top.r)
            IN R([res.S EXCEPT !.ite = (key :> res.r) @@ @], res.r)

Variable(S, v) == MkNode(S, v, BOT, TOP)
Not(S, a) == Ite(S, a, BOT, TOP)
And(S, a, b) == Ite(S, a, b, BOT)
Or(S, a, b) == Ite(S, a, TOP, b)
Imp(S, a, b) == Ite(S, a, b, TOP)
Iff(S, a, b) == LET nb == Not(S, b) IN Ite(nb.S, a, b, nb.r)
Xor(S, a, b) == LET nb == Not(S, b) IN Ite(nb.S, a, nb.r, b)

Apply(S, op, a, b, v, val) ==
  CASE op = "var"      -> Variable(S, v)
    [] op = "not"      -> Not(S, a)
    [] op = "and"      -> And(S, a, b)
    [] op = "or"       -> Or(S, a, b)
    [] op = "imp"      -> Imp(S, a, b)
    [] op = "iff"      -> Iff(S, a, b)
    [] op = "xor"      -> Xor(S, a, b)
    [] op = "restrict" -> Restrict(S, a, v, val)

(***************************************************************************)
(* Denotation and the invariants of C06 / C07 over a variable universe     *)
(* 0..nv-1 (assignments = sets of true variables).                         *)
(***************************************************************************)
RECURSIVE EvalH(_, _, _)
EvalH(ns, h, A) == IF h = 1 THEN TRUE ELSE IF h = 0 THEN FALSE
                   ELSE LET n == ns[h + 1] IN EvalH(ns, IF n[1] \in A THEN n[3] ELSE n[2], A)
Universe(nv) == SUBSET (0..(nv - 1))
DenN(ns, h, nv) == { A \in Universe(nv) : EvalH(ns, h, A) }
Den(S, h, nv) == DenN(S.nodes, h, nv)

HandlesN(ns) == 0..(Len(ns) - 1)
ConstOK(ns) == Len(ns) >= 2 /\ ns[1] = <<VarBOT, 0, 0>> /\ ns[2] = <<VarTOP, 1, 1>>
Reduced(ns) == \A h \in HandlesN(ns) : h > 1 => ns[h + 1][2] # ns[h + 1][3]
Ordered(ns, nv) == \A h \in HandlesN(ns) : h > 1 =>
     LET n == ns[h + 1] IN
     /\ n[1] \in 0..(nv - 1) /\ n[2] < h /\ n[3] < h
     /\ (n[2] > 1 => ns[n[2] + 1][1] > n[1])
     /\ (n[3] > 1 => ns[n[3] + 1][1] > n[1])
NoDupNodes(ns) == \A h1, h2 \in HandlesN(ns) : ns[h1 + 1] = ns[h2 + 1] => h1 = h2
Canonical(ns, nv) == LET D == [h \in HandlesN(ns) |-> DenN(ns, h, nv)] IN
                     \A h1, h2 \in HandlesN(ns) : D[h1] = D[h2] => h1 = h2
TableOK(ns, nv) == ConstOK(ns) /\ Reduced(ns) /\ Ordered(ns, nv) /\ NoDupNodes(ns) /\ Canonical(ns, nv)

\* unique table = node table
UniqOK(S) == /\ DOMAIN S.uniq = { S.nodes[h + 1] : h \in 2..(Size(S) - 1) }
             /\ \A n \in DOMAIN S.uniq : S.nodes[S.uniq[n] + 1] = n

IsPrefix(a, b) == Len(a) <= Len(b) /\ SubSeq(b, 1, Len(a)) = a

SemOp(op, fa, fb, U) ==
  CASE op = "not" -> U \ fa
    [] op = "and" -> fa \cap fb
    [] op = "or"  -> fa \cup fb
    [] op = "imp" -> (U \ fa) \cup fb
    [] op = "iff" -> { A \in U : (A \in fa) <=> (A \in fb) }
    [] op = "xor" -> { A \in U : (A \in fa) # (A \in fb) }
Cofactor(f, v, val, U) == { A \in U : (IF val THEN A \cup {v} ELSE A \ {v}) \in f }
IteSem(fi, ft, fe, U) == { A \in U : IF A \in fi THEN A \in ft ELSE A \in fe }

\* every memo entry maps its key to the right function
CachesOK(S, nv) ==
  LET U == Universe(nv) IN
  /\ \A k \in DOMAIN S.ite : Den(S, S.ite[k], nv) = IteSem(Den(S, k[1], nv), Den(S, k[2], nv), Den(S, k[3], nv), U)
  /\ \A k \in DOMAIN S.rc  : Den(S, S.rc[k], nv) = Cofactor(Den(S, k[1], nv), k[2], k[3], U)

\* dependency lists: exactly the variables the function depends on (on a canonical table = variables on paths)
DepSet(f, nv) == { v \in 0..(nv - 1) : Cofactor(f, v, TRUE, Universe(nv)) # Cofactor(f, v, FALSE, Universe(nv)) }
DepsOK(S, nv) == VariableList => /\ Len(S.deps) = Size(S)
                                 /\ \A h \in Handles(S) : S.deps[h + 1] = DepSet(Den(S, h, nv), nv)

\* explicit paths of the diagram: number of root-to-BOT / root-to-TOP paths, longest path
RECURSIVE PathsTo(_, _, _), Depth(_, _)
PathsTo(ns, h, leaf) == IF h <= 1 THEN (IF h = leaf THEN 1 ELSE 0)
                        ELSE PathsTo(ns, ns[h + 1][2], leaf) + PathsTo(ns, ns[h + 1][3], leaf)
Depth(ns, h) == IF h <= 1 THEN 0 ELSE 1 + Max(Depth(ns, ns[h + 1][2]), Depth(ns, ns[h + 1][3]))

\* count cache entries are exact (paths, depth always; models only with adhoccountmodels)
CountsOK(S, nv) ==
  AdHocCounting =>
    /\ DOMAIN S.cnt = Handles(S)
    /\ \A h \in Handles(S) :
         LET c == S.cnt[h]  d == Depth(S.nodes, h)  m == Cardinality(Den(S, h, nv)) IN
         /\ c[3] = PathsTo(S.nodes, h, 0) /\ c[4] = PathsTo(S.nodes, h, 1) /\ c[5] = d
         /\ AdHocModels => /\ c[1] + c[2] = Pow2(d)
                           /\ c[2] * Pow2(nv) = m * Pow2(d)
=============================================================================
