SPECIFICATION Spec
CONSTANTS VariableList = TRUE
          AdHocCounting = TRUE
          AdHocModels = FALSE
POSTCONDITION Consumed
CHECK_DEADLOCK FALSE
