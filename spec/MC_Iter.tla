------------------------------- MODULE MC_Iter -------------------------------
(***************************************************************************)
(* The two interpretation odometers as state machines (C20): one step =    *)
(* one call of next().  All vectors up to MaxLen over {T,F,U}.             *)
(***************************************************************************)
EXTENDS Iterators, TLC

CONSTANT MaxLen

Vecs == UNION { [1..n -> Vals] : n \in 0..MaxLen }

VARIABLES orig, mode, st, out, nones

vars == <<orig, mode, st, out, nones>>

Init == /\ orig \in Vecs /\ mode \in {"two", "three"}
        /\ st = IF mode = "two" THEN Init2(orig) ELSE Init3(orig)
        /\ out = <<>> /\ nones = 0

Call == /\ nones < 2                       \* two more calls after exhaustion: next() must keep answering None
        /\ LET r == IF mode = "two" THEN Step2(st) ELSE Step3(st) IN
           /\ st' = r[1]
           /\ IF r[2] = None THEN out' = out /\ nones' = nones + 1
                             ELSE out' = Append(out, r[2]) /\ nones' = nones
        /\ UNCHANGED <<orig, mode>>

Next == Call
Spec == Init /\ [][Next]_vars
FairSpec == Spec /\ WF_vars(Next)

OutSet == { out[i] : i \in DOMAIN out }
\* never a wrong item, never an item twice, decided positions never altered
Safe == /\ \A i \in DOMAIN out : Refines(orig, out[i], mode = "three")
        /\ Cardinality(OutSet) = Len(out)
        /\ (nones > 0 => \A i \in DOMAIN out : TRUE)
\* once exhausted: exactly the 2^k completions / 3^k refinements, the three-valued one starting with the vector itself
Done == nones > 0 => /\ OutSet = (IF mode = "two" THEN All2(orig) ELSE All3(orig))
                     /\ (mode = "three" => out[1] = orig)
\* nothing is emitted after the first None
Sticky == [][nones > 0 => out' = out]_vars
Terminates == <>(nones = 2)
=============================================================================
