------------------------------ MODULE Iterators ------------------------------
(***************************************************************************)
(* The two interpretation odometers of lib/src/datatypes/adf.rs,           *)
(* transcribed as step functions on their private state.                   *)
(*   TwoValuedInterpretationsIterator  : indexes, current, started         *)
(*   ThreeValuedInterpretationsIterator: original, indexes, current, started*)
(* Vectors are over {"T","F","U"}; "U" stands for an arbitrary non-constant*)
(* handle which the three-valued iterator must reproduce verbatim.         *)
(***************************************************************************)
EXTENDS Naturals, Sequences, FiniteSets

Und(v) == { i \in DOMAIN v : v[i] = "U" }

\* indexes = undecided positions, last position first (the code collects .rev())
RECURSIVE RevIdx(_, _)
RevIdx(v, i) == IF i = 0 THEN <<>> ELSE (IF v[i] = "U" THEN <<i>> ELSE <<>>) \o RevIdx(v, i - 1)
Indexes(v) == RevIdx(v, Len(v))

None == <<"none">>

(************************* two-valued odometer ******************************)
Init2(v) == [idx |-> Indexes(v),
             cur |-> [i \in DOMAIN v |-> IF v[i] = "U" THEN "F" ELSE v[i]],
             started |-> FALSE, fin |-> FALSE]

\* one call of next(): returns <<new state, emitted item or None>>
Step2(st) ==
  IF ~st.started THEN << [st EXCEPT !.started = TRUE], st.cur >>
  ELSE IF st.fin THEN << st, None >>
  ELSE LET idx == st.idx
           J == { j \in 1..Len(idx) : st.cur[idx[j]] = "F" } IN
       IF J = {} THEN << [st EXCEPT !.fin = TRUE], None >>
       ELSE LET j == CHOOSE x \in J : \A y \in J : x <= y
                res == [i \in DOMAIN st.cur |->
                          IF i = idx[j] THEN "T"
                          ELSE IF \E k \in 1..(j - 1) : idx[k] = i THEN "F"
                          ELSE st.cur[i]]
            IN << [st EXCEPT !.cur = res], res >>

(************************ three-valued odometer *****************************)
Init3(v) == [orig |-> v, idx |-> Indexes(v),
             cur |-> [j \in 1..Len(Indexes(v)) |-> 2], started |-> FALSE, fin |-> FALSE]

Render3(st, c) ==
  [i \in DOMAIN st.orig |->
     IF \E j \in 1..Len(st.idx) : st.idx[j] = i
     THEN LET j == CHOOSE x \in 1..Len(st.idx) : st.idx[x] = i IN
          (IF c[j] = 0 THEN "F" ELSE IF c[j] = 1 THEN "T" ELSE st.orig[i])
     ELSE st.orig[i]]

Step3(st) ==
  IF ~st.started THEN << [st EXCEPT !.started = TRUE], Render3(st, st.cur) >>
  ELSE IF st.fin THEN << st, None >>
  ELSE LET P == { j \in DOMAIN st.cur : st.cur[j] > 0 } IN
       IF P = {} THEN << [st EXCEPT !.fin = TRUE], None >>
       ELSE LET j == CHOOSE x \in P : \A y \in P : x <= y
                c == [k \in DOMAIN st.cur |-> IF k = j THEN st.cur[k] - 1
                                              ELSE IF k < j THEN 2 ELSE st.cur[k]]
            IN << [st EXCEPT !.cur = c], Render3(st, c) >>

(************************* whole runs as sequences **************************)
RECURSIVE Run2(_, _), Run3(_, _)
Run2(st, acc) == LET r == Step2(st) IN IF r[2] = None THEN acc ELSE Run2(r[1], Append(acc, r[2]))
Run3(st, acc) == LET r == Step3(st) IN IF r[2] = None THEN acc ELSE Run3(r[1], Append(acc, r[2]))
Seq2(v) == Run2(Init2(v), <<>>)
Seq3(v) == Run3(Init3(v), <<>>)

(***************************** reference sets *******************************)
Vals == {"T", "F", "U"}
Refines(orig, w, allowU) ==
  /\ DOMAIN w = DOMAIN orig
  /\ \A i \in DOMAIN orig : IF orig[i] = "U" THEN (allowU \/ w[i] # "U") /\ w[i] \in Vals
                                             ELSE w[i] = orig[i]
All2(orig) == { w \in [DOMAIN orig -> Vals] : Refines(orig, w, FALSE) }
All3(orig) == { w \in [DOMAIN orig -> Vals] : Refines(orig, w, TRUE) }
=============================================================================
