SPECIFICATION Spec
CONSTANTS N = 3
          FunSet = "sample"
INVARIANTS GroundSound GroundExact ResidualOK AnswersOK
CHECK_DEADLOCK FALSE
