SPECIFICATION SpecH
CONSTANTS MaxNodes = 5
  StoreFirst = TRUE
INVARIANTS RelayInv AliveInv DeadInv
CHECK_DEADLOCK FALSE
