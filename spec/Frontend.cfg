SPECIFICATION Spec
CONSTANTS MaxNodes = 6
INVARIANTS PrefixInv FoundRule Quiescent
PROPERTIES Monotone
CHECK_DEADLOCK FALSE
