------------------------------ MODULE Trace_Meta ------------------------------
(***************************************************************************)
(* Trace validator for presentation independence (C10).  One record = one  *)
(* base ADF shown to the library in several presentations (injective       *)
(* renaming, shuffled facts, none / lexicographic / alphanumeric sorting,  *)
(* reformatted whitespace).  Every answer is read back as a map from BASE  *)
(* statement to truth value through the reported labels; the maps must be  *)
(* the same in all presentations and on all back-ends, and - for small     *)
(* bases - equal to the definitional answer.  (That the definitions        *)
(* themselves commute with renaming is model-checked in MC_Perm.)          *)
(***************************************************************************)
EXTENDS AdfSem, AdfSyntax, ParserOps, SequencesExt, Json, IOUtils, TLC

Rec == ndJsonDeserialize(IOEnv.TRACE)
VARIABLE l

Report(ok, id, what, p) == ok \/ PrintT(<<"MISMATCH", l, id, "C10", what, p>>)

\* position of base statement i in the reported order of presentation p
PosOf(p, i) == CHOOSE j \in DOMAIN p.names : p.names[j] = p.ren[i]
\* a reported model as a map base statement -> value
AsBase(p, m, n) == [i \in 1..n |-> m[PosOf(p, i)]]
Models(p, call, n) == { AsBase(p, call.r[k], n) : k \in DOMAIN call.r }

Sorted(names) == \A i \in 1..(Len(names) - 1) : LexLeq(names[i], names[i + 1]) /\ names[i] # names[i + 1]

Check(r) ==
  LET n == r.n
      ok == { pi \in DOMAIN r.pres : r.pres[pi].st = "ok" }
      hasOracle == r.base_asts # <<>>
      tt == TTs(r.base_asts, n)
      G  == Grounded(tt, n)
      TW == TwoValDirect(tt, n)
      ST == { v \in TW : IsStable(tt, v, n) }
      CO == Complete(tt, n)
      Oracle(c) == CASE c = "grounded" -> {G} [] c = "complete" -> CO [] c = "twoval" -> TW [] OTHER -> ST
      first == r.pres[1]
  IN
  /\ \A pi \in DOMAIN r.pres : Report(r.pres[pi].st = "ok", r.id, "presentation-failed", pi)
  /\ \A pi \in ok :
       LET p == r.pres[pi] IN
       /\ Report(Len(p.names) = n /\ RangeOf(p.names) = RangeOf(p.ren), r.id, "labels-not-preserved", pi)
       /\ (p.sort = "lexi") => Report(Sorted(p.names), r.id, "lexi-order-not-bytewise", pi)
       /\ (Len(p.names) = n /\ RangeOf(p.names) = RangeOf(p.ren)) =>
            \A ci \in DOMAIN p.calls :
              LET c == p.calls[ci] IN
              /\ Report(Cardinality(Models(p, c, n)) = Len(c.r), r.id, <<"duplicate-models", c.c, c.b>>, pi)
              \* the same maps as in the first presentation, for the same semantics on ANY back-end
              /\ (1 \in ok) =>
                   \A di \in DOMAIN first.calls :
                     (first.calls[di].c = c.c \/ {first.calls[di].c, c.c} \subseteq {"stable", "stable_ng"}) =>
                       Report(Models(p, c, n) = Models(first, first.calls[di], n), r.id, <<"answers-depend-on-presentation", c.c, c.b>>, pi)
              /\ hasOracle => Report(Models(p, c, n) = Oracle(c.c), r.id, <<"differs-from-definition", c.c, c.b>>, pi)
  \* conformance with ParserState (drift only): the name list is what the s facts and the sort make of it, the dictionary its inverse
  /\ \A pi \in ok :
       LET p == r.pres[pi]
           n0 == NamesAfter(p.sfacts, <<>>)
           want == IF p.sort = "lexi" THEN SortSeq(n0, LAMBDA a, b : LexLeq(a, b) /\ a # b) ELSE n0
       IN ("sfacts" \notin DOMAIN p)
          \/ ((p.sort = "alphanum" \/ p.names = want) /\ p.dictvals = [i \in DOMAIN p.names |-> i - 1])
          \/ PrintT(<<"DRIFT", l, r.id, <<"parser-state", pi, p.sort>> >>)
  /\ PrintT(<<"INFO", l, r.id, n, Cardinality(ok)>>)

Init == l = 1
Next == /\ l <= Len(Rec) /\ Check(Rec[l]) \in BOOLEAN /\ l' = l + 1
Spec == Init /\ [][Next]_l
Consumed == (TLCGet("stats").diameter - 1 = Len(Rec))
              \/ PrintT(<<"NOTCONSUMED", TLCGet("stats").diameter, Len(Rec)>>)
=============================================================================
