SPECIFICATION TraceSpec
CONSTANTS MaxNodes = 0
POSTCONDITION Consumed
CHECK_DEADLOCK FALSE
