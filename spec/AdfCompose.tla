----------------------------- MODULE AdfCompose -----------------------------
(***************************************************************************)
(* Definitional semantics of COMPOSED frameworks, for ADFs too large for   *)
(* the brute-force operators of AdfSem (10-16 statements).                 *)
(*                                                                         *)
(* A decomposition of an ADF over statements 1..n is                       *)
(*   blocks : a sequence of sequences of statements; the acceptance        *)
(*            condition of a block's statement mentions only statements of *)
(*            the same block (the blocks are independent sub-frameworks,   *)
(*            arbitrarily interleaved in the variable order);              *)
(*   obs    : "observer" statements whose conditions mention block         *)
(*            statements only and which nobody mentions.                   *)
(* TLC itself checks that a claimed decomposition is one (ValidDecomp, on  *)
(* the ASTs the library was given), computes the answers of every block    *)
(* with the AdfSem operators on the block's own few statements, and the    *)
(* composition theorem gives the answers of the whole:                     *)
(*   grounded  = block-wise grounded, observers evaluated on it;           *)
(*   v complete / two-valued model / stable  iff  every block projection   *)
(*   is one for its block and every observer carries the three-valued      *)
(*   value of its condition under v.                                       *)
(* The theorem itself is model-checked against the direct definitions for  *)
(* every ADF of several small shapes (MC_Compose).                         *)
(***************************************************************************)
EXTENDS AdfSem

RECURSIVE Atoms(_)
Atoms(f) == CASE f[1] \in {"top", "bot"} -> {}
              [] f[1] = "atom" -> {f[2]}
              [] f[1] = "not"  -> Atoms(f[2])
              [] OTHER         -> Atoms(f[2]) \cup Atoms(f[3])

RangeS(sq) == { sq[i] : i \in DOMAIN sq }
BaseOf(blocks) == UNION { RangeS(blocks[k]) : k \in DOMAIN blocks }

RECURSIVE SumLenB(_, _)
SumLenB(blocks, k) == IF k > Len(blocks) THEN 0 ELSE Len(blocks[k]) + SumLenB(blocks, k + 1)

ValidDecomp(asts, n, blocks, obs) ==
  /\ BaseOf(blocks) \cup RangeS(obs) = 1..n
  /\ SumLenB(blocks, 1) + Len(obs) = n                        \* hence pairwise disjoint, nothing listed twice
  /\ \A k \in DOMAIN blocks : Len(blocks[k]) >= 1 /\
        \A i \in DOMAIN blocks[k] : Atoms(asts[blocks[k][i]]) \subseteq RangeS(blocks[k])
  /\ \A j \in DOMAIN obs : Atoms(asts[obs[j]]) \subseteq BaseOf(blocks)

\* the block as an ADF of its own: statement blk[i] becomes statement i
IdxOf(sq, g) == CHOOSE i \in DOMAIN sq : sq[i] = g
RECURSIVE Relabel(_, _)
Relabel(f, sq) == CASE f[1] \in {"top", "bot"} -> f
                    [] f[1] = "atom" -> <<"atom", IdxOf(sq, f[2])>>
                    [] f[1] = "not"  -> <<"not", Relabel(f[2], sq)>>
                    [] OTHER         -> <<f[1], Relabel(f[2], sq), Relabel(f[3], sq)>>
LocalTT(asts, blk) == LET m == Len(blk) IN TTs([i \in 1..m |-> Relabel(asts[blk[i]], blk)], m)
Proj(v, blk) == [i \in 1..Len(blk) |-> v[blk[i]]]

\* three-valued value of a condition under an interpretation of (at least) its atoms
ObsVal(f, v) ==
  LET At == Atoms(f)
      T  == { a \in At : v[a] = "T" }
      U  == { a \in At : v[a] = "U" }
      vals == { Eval(f, T \cup X) : X \in SUBSET U }
  IN IF vals = {TRUE} THEN "T" ELSE IF vals = {FALSE} THEN "F" ELSE "U"

\* per-block answers, computed once per framework: a sequence of records
BlockSem(asts, blocks) ==
  [k \in DOMAIN blocks |->
     LET m == Len(blocks[k])  tt == LocalTT(asts, blocks[k])  tw == TwoValDirect(tt, m) IN
     [g |-> Grounded(tt, m), co |-> Complete(tt, m), tw |-> tw, st |-> { v \in tw : IsStable(tt, v, m) }]]

\* block-only answers without the complete models (3^m interpretations per block are only needed for C02)
BlockSemLight(asts, blocks) ==
  [k \in DOMAIN blocks |->
     LET m == Len(blocks[k])  tt == LocalTT(asts, blocks[k])  tw == TwoValDirect(tt, m) IN
     [g |-> Grounded(tt, m), co |-> {}, tw |-> tw, st |-> { v \in tw : IsStable(tt, v, m) }]]

GroundedC(asts, n, blocks, obs, bs) ==
  LET base == [s \in BaseOf(blocks) |->
                 LET k == CHOOSE kk \in DOMAIN blocks : s \in RangeS(blocks[kk]) IN bs[k].g[IdxOf(blocks[k], s)]]
  IN [s \in 1..n |-> IF s \in DOMAIN base THEN base[s] ELSE ObsVal(asts[s], base)]

\* v (a vector over 1..n) is an answer of kind sel ("co" | "tw" | "st") of the composed framework
VecOK(v, asts, blocks, obs, bs, sel) ==
  /\ \A k \in DOMAIN blocks :
        LET p == Proj(v, blocks[k]) IN
        CASE sel = "co" -> p \in bs[k].co
          [] sel = "tw" -> p \in bs[k].tw
          [] OTHER      -> p \in bs[k].st
  /\ \A j \in DOMAIN obs : v[obs[j]] = ObsVal(asts[obs[j]], v)

RECURSIVE CountC(_, _, _)
CountC(bs, sel, k) ==
  IF k > Len(bs) THEN 1
  ELSE Cardinality(CASE sel = "co" -> bs[k].co [] sel = "tw" -> bs[k].tw [] OTHER -> bs[k].st) * CountC(bs, sel, k + 1)

\* the observed sequence lists exactly the answers of kind sel, each once: no duplicates, every entry is one, and as many as there are
ExactlyOnceC(sq, n, asts, blocks, obs, bs, sel) ==
  /\ NoDup(sq)
  /\ \A i \in DOMAIN sq : Len(sq[i]) = n /\ (\A s \in 1..n : sq[i][s] \in TV) /\ VecOK(sq[i], asts, blocks, obs, bs, sel)
  /\ Len(sq) = CountC(bs, sel, 1)
=============================================================================
