------------------------------- MODULE AdfSem -------------------------------
(***************************************************************************)
(* Definitional semantics of abstract dialectical frameworks.              *)
(*                                                                         *)
(* Nothing in this module knows about diagrams, handles, caches or search. *)
(* A Boolean function over statements 1..n is the SET of its satisfying    *)
(* assignments; an assignment is the set of statements it makes true.      *)
(* "Decided" is "constant function".  Every other module (the algorithmic  *)
(* transcriptions, the trace validators) is judged against these few lines.*)
(***************************************************************************)
EXTENDS Naturals, FiniteSets, Sequences

Assign(n) == SUBSET (1..n)
TOPF(n) == Assign(n)
BOTF == {}

(***************************************************************************)
(* Formula ASTs are tuples headed by a tag:                                *)
(*   <<"top">> <<"bot">> <<"atom", i>> <<"not", f>>                        *)
(*   <<"and"|"or"|"imp"|"iff"|"xor", f, g>>                                *)
(***************************************************************************)
RECURSIVE Eval(_, _)
Eval(f, A) ==
  CASE f[1] = "top"  -> TRUE
    [] f[1] = "bot"  -> FALSE
    [] f[1] = "atom" -> f[2] \in A
    [] f[1] = "not"  -> ~Eval(f[2], A)
    [] f[1] = "and"  -> Eval(f[2], A) /\ Eval(f[3], A)
    [] f[1] = "or"   -> Eval(f[2], A) \/ Eval(f[3], A)
    [] f[1] = "imp"  -> Eval(f[2], A) => Eval(f[3], A)
    [] f[1] = "iff"  -> Eval(f[2], A) <=> Eval(f[3], A)
    [] f[1] = "xor"  -> Eval(f[2], A) # Eval(f[3], A)

TT(f, n) == { A \in Assign(n) : Eval(f, A) }
TTs(asts, n) == [s \in 1..n |-> TT(asts[s], n)]

(***************************************************************************)
(* Three-valued interpretations and the consequence operator Gamma.        *)
(***************************************************************************)
TV == {"T", "F", "U"}
Interp(n) == [1..n -> TV]
AllU(n) == [s \in 1..n |-> "U"]

\* two-valued completions of v, as assignments
Compl(v, n) == LET T == { s \in 1..n : v[s] = "T" }
                   U == { s \in 1..n : v[s] = "U" }
               IN { T \cup X : X \in SUBSET U }

Val3(f, C) == IF C \subseteq f THEN "T" ELSE IF C \cap f = {} THEN "F" ELSE "U"

Gamma(tt, v, n) == LET C == Compl(v, n) IN [s \in 1..n |-> Val3(tt[s], C)]

\* information order
LeqI(v, w, n) == \A s \in 1..n : v[s] = "U" \/ v[s] = w[s]

RECURSIVE Lfp(_, _, _)
Lfp(tt, v, n) == LET w == Gamma(tt, v, n) IN IF w = v THEN v ELSE Lfp(tt, w, n)

Grounded(tt, n) == Lfp(tt, AllU(n), n)

Complete(tt, n) == { v \in Interp(n) : Gamma(tt, v, n) = v }

IsTwoValued(v, n) == \A s \in 1..n : v[s] # "U"

\* two-valued models: two-valued fixpoints of Gamma
TwoVal(tt, n) == { v \in Complete(tt, n) : IsTwoValued(v, n) }

\* cheaper enumeration of the same set (used on larger n): v two-valued, every ac agrees
AsInterp(A, n) == [s \in 1..n |-> IF s \in A THEN "T" ELSE "F"]
TwoValDirect(tt, n) == { AsInterp(A, n) : A \in { B \in Assign(n) : \A s \in 1..n : (s \in B) <=> (B \in tt[s]) } }

(***************************************************************************)
(* Reduct and stable models, as in the property text: every acceptance     *)
(* condition with v's false statements replaced by falsum; v is stable iff *)
(* it is a two-valued model and every statement true in v is true in the   *)
(* grounded interpretation of the reduct.                                  *)
(***************************************************************************)
FalseOf(v, n) == { s \in 1..n : v[s] = "F" }
TrueOf(v, n) == { s \in 1..n : v[s] = "T" }

Reduct(tt, v, n) == LET FS == FalseOf(v, n) IN
                    [s \in 1..n |-> { A \in Assign(n) : (A \ FS) \in tt[s] }]

IsStable(tt, v, n) == LET g == Grounded(Reduct(tt, v, n), n) IN
                      \A s \in 1..n : v[s] = "T" => g[s] = "T"

Stable(tt, n) == { v \in TwoValDirect(tt, n) : IsStable(tt, v, n) }

\* The implementation's test: grounded of the reduct coincides with v on ALL positions.
IsStableAllPos(tt, v, n) == Grounded(Reduct(tt, v, n), n) = v

(***************************************************************************)
(* Sequences of interpretations as answers.                                *)
(***************************************************************************)
Range(sq) == { sq[i] : i \in DOMAIN sq }
NoDup(sq) == \A i, j \in DOMAIN sq : sq[i] = sq[j] => i = j
ExactlyOnce(sq, S) == NoDup(sq) /\ Range(sq) = S

(***************************************************************************)
(* Renaming / permutation of statements (C10): pi is a bijection 1..n->1..n*)
(* mapping old position to new position.                                   *)
(***************************************************************************)
PermAssign(A, pi) == { pi[s] : s \in A }
PermTT(tt, pi, n) == [t \in 1..n |-> LET s == CHOOSE x \in 1..n : pi[x] = t IN
                                      { PermAssign(A, pi) : A \in tt[s] }]
PermInterp(v, pi, n) == [t \in 1..n |-> v[CHOOSE x \in 1..n : pi[x] = t]]
=============================================================================
