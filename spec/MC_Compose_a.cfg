SPECIFICATION Spec
CONSTANTS N = 3
  Blocks <- B_a
  Obs <- O_a
INVARIANT Lemma
CHECK_DEADLOCK FALSE
