--------------------------- MODULE Trace_ServerModel ---------------------------
(***************************************************************************)
(* Conformance of the real web service with the ACTIONS of Server.tla      *)
(* (drift only).  One scenario per run.  Every recorded request must be    *)
(* explainable as  Start(p, request) ; Step(p)* ; response  with the       *)
(* recorded HTTP status, background tasks (TaskStep) being interleaved     *)
(* wherever TLC needs them - it infers what was not logged: when a parse   *)
(* or solve task wrote its result relative to later requests.  Whenever    *)
(* the harness observed quiescence (no accepted task pending) the model    *)
(* must have no task left, and its collection of problem documents must    *)
(* equal the database snapshot: same (name, owner, code), same state of    *)
(* the parse result, same strategies solved.                               *)
(* The model's constants are read off the trace (account names, problem    *)
(* names, passwords); submitted codes are classified by TLC's own          *)
(* recogniser (unparseable / grammatical but ill-formed / good).           *)
(* Acceptance is blocking: the run reports how many records it could       *)
(* explain; the driver turns a shortfall into a drift entry.               *)
(***************************************************************************)
EXTENDS Server, AdfSyntax, Integers, Json, IOUtils

Rec == ndJsonDeserialize(IOEnv.TRACE)

RangeOf(sq) == { sq[i] : i \in DOMAIN sq }
Http == { Rec[i] : i \in { j \in DOMAIN Rec : Rec[j].kind = "http" } }

\* ---- constants of the model, from the trace
TPrincipals == 0..4
Dev(r) == IF "dev" \in DOMAIN r THEN r.dev ELSE r.p      \* the cookie jar (device) a request came from; r.p is the person
TAccounts == { r.args.username : r \in { x \in Http : x.op \in {"register", "login", "update"} } }
TPNames == { r.args.name : r \in { x \in Http : x.op \in {"add", "solve", "get", "delete"} } } \ {""}
TTemp == {"~t1", "~t2", "~t3", "~t4", "~t5", "~t6", "~t7", "~t8"}
TGen == {"~g1", "~g2", "~g3", "~g4"}
TStrategies == {"Ground", "Complete", "Stable", "StableCountingA", "StableCountingB", "StableNogood"}
Adds == { r \in Http : r.op = "add" }
WellFormedFacts(facts) ==
  LET ns == RangeOf(Names(facts))  acs == Acs(facts) IN
  /\ \A i \in DOMAIN acs : acs[i][2] \in ns /\ AtomsOf(acs[i][3]) \subseteq ns
  /\ \A n \in ns : Cardinality({ i \in DOMAIN acs : acs[i][2] = n }) = 1
TBad == { r.args.code : r \in { x \in Adds : ~Parse(x.args.code_cp).ok } }
TBoom == { r.args.code : r \in { x \in Adds : Parse(x.args.code_cp).ok /\ ~WellFormedFacts(Parse(x.args.code_cp).facts) } }
TCodes == { r.args.code : r \in Adds } \ (TBad \cup TBoom)

VARIABLES l, ph

tvars == <<vars, l, ph>>

ReqOf(r) ==
  CASE r.op = "register" -> [op |-> "register", n |-> r.args.username, pw |-> r.args.password]
    [] r.op = "login"    -> [op |-> "login", n |-> r.args.username, pw |-> r.args.password]
    [] r.op = "update"   -> [op |-> "update", n |-> r.args.username, pw |-> r.args.password]
    [] r.op = "delete_account" -> [op |-> "delacct"]
    [] r.op = "logout"   -> [op |-> "logout"]
    [] r.op = "info"     -> [op |-> "info"]
    [] r.op = "add"      -> [op |-> "add", pn |-> r.args.name, code |-> r.args.code]
    [] r.op = "solve"    -> [op |-> "solve", pn |-> r.args.name, s |-> r.args.strategy]
    [] r.op = "get"      -> [op |-> "get", pn |-> r.args.name]
    [] r.op = "list"     -> [op |-> "list"]
    [] r.op = "delete"   -> [op |-> "delprob", pn |-> r.args.name]

\* does the observer know that nothing is pending right after record i ?
QuietAfter(i) == i < Len(Rec) /\ Rec[i + 1].kind = "db" /\ Rec[i + 1].pending_writes = 0

\* ---- projection of the model's documents / of a database snapshot
UserKind(u) == IF u \in TTemp THEN "~temp" ELSE u
RealUserKind(u) == IF u \in TAccounts THEN u ELSE "~temp"
NameKind(n) == IF n \in TGen THEN "~gen" ELSE n
RealNameKind(n) == IF n \in TPNames THEN n ELSE "~gen"
ParseState(d) == IF d.adfOf = "None" THEN "None" ELSE IF d.adfOf = "Error" THEN "Error" ELSE "Some"
ModelDocs == { << NameKind(d.name), UserKind(d.user), d.code, ParseState(d),
                  { s \in TStrategies : d.res[s] \notin {"None", "Error"} } >> : d \in probs }
StratOf(e) == e.strategy
SnapDocs(dump) == { << RealNameKind(d.name), RealUserKind(d.username), d.code, d.per[1].type,
                       { e.strategy : e \in { x \in RangeOf(d.per) : x.strategy # "Parse" /\ x.type = "Some" } } >> : d \in RangeOf(dump.probs) }
ModelUsers == { << UserKind(n), users[n].pw = "TEMP" >> : n \in DOMAIN users }
SnapUsers(dump) == { << RealUserKind(u.username), u.password = "null" >> : u \in RangeOf(dump.users) }

TraceInit == /\ Init /\ l = 2 /\ ph = "start" /\ TLCSet(1, 0)

\* the anonymous client (principal 0) keeps no cookie
DropAnon(p) == IF p = 0 THEN cookie' = [cookie EXCEPT ![0] = NoUser] ELSE UNCHANGED cookie

\* a step of some OTHER person's request that is still in flight (only the concurrently launched ones can be)
InFlightStep(p) == \E q \in TPrincipals \ {p} : req[q].op # "idle" /\ Step(q) /\ ph' = ph /\ l' = l

TraceNext ==
  /\ l <= Len(Rec)
  /\ LET r == Rec[l] IN
     CASE r.kind = "http_start" ->          \* a request launched concurrently: it stays in flight, its response comes later
            /\ Start(Dev(r), ReqOf(r)) /\ ph' = "start" /\ l' = l + 1
       [] r.kind = "http" /\ "concurrent" \in DOMAIN r ->          \* ... and this is that response
            \/ (Step(Dev(r)) /\ ph' = ph /\ l' = l)
            \/ /\ req[Dev(r)].op = "idle" /\ req[Dev(r)].status = r.status
               /\ l' = l + 1 /\ ph' = "start" /\ UNCHANGED vars
       [] r.kind = "http" /\ ph = "start" ->
            \/ (Start(Dev(r), ReqOf(r)) /\ ph' = "run" /\ l' = l)
            \/ InFlightStep(Dev(r))
       [] r.kind = "http" /\ ph = "run" ->
            \/ InFlightStep(Dev(r))
            \/ (Step(Dev(r)) /\ ph' = ph /\ l' = l)
            \/ (\E t \in tasks : TaskStep(t) /\ ph' = ph /\ l' = l)
            \/ \* the response: same status; if the observer saw quiescence afterwards, no task may be left
               /\ req[Dev(r)].op = "idle" /\ req[Dev(r)].status = r.status
               /\ (QuietAfter(l) => tasks = {})
               /\ l' = l + 1 /\ ph' = "start"
               /\ DropAnon(Dev(r))
               /\ UNCHANGED <<users, probs, running, req, tasks, nextId, nreq, foreignRead, foreignEffect, wrongResult, lostResult, stale>>
       [] r.kind = "db" ->
            \/ (\E t \in tasks : TaskStep(t) /\ ph' = ph /\ l' = l)
            \/ /\ (r.pending_writes = 0) => (tasks = {} /\ ModelDocs = SnapDocs(r.dump) /\ ModelUsers = SnapUsers(r.dump))
               /\ l' = l + 1 /\ ph' = "start" /\ UNCHANGED vars
       [] OTHER -> l' = l + 1 /\ ph' = ph /\ UNCHANGED vars

TraceSpec == TraceInit /\ [][TraceNext]_tvars

\* how far could the scenario be explained?  (state constraint: records the deepest record index reached)
Reached == TLCSet(1, IF TLCGet(1) < l THEN l ELSE TLCGet(1))
Report == PrintT(<<"REACHED", TLCGet(1) - 1, Len(Rec)>>)
=============================================================================
