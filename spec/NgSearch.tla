------------------------------ MODULE NgSearch ------------------------------
(***************************************************************************)
(* Adf::nogood_internal (lib/src/adf.rs) as a state machine: one step per  *)
(* iteration of the learning loop, with exactly the loop's private state   *)
(*   cur        current interpretation (residual Boolean functions)        *)
(*   stack      (is_choice, nogood) pairs                                  *)
(*   hist       interpretations saved at choices (interpr_history)         *)
(*   store      the NoGoodStore (mode Equiv)                               *)
(*   backtrack, choice   the two flags carried between iterations          *)
(*   out        what was sent on the channel                               *)
(* The heuristic is a nondeterministic choice of (undecided statement,     *)
(* truth value): every custom heuristic that honours the contract, dynamic *)
(* and history-dependent ones included, is one resolution of that choice.  *)
(* With Contract = FALSE the heuristic may propose decided statements too  *)
(* (the behaviour of the unrepaired Rand heuristic).                       *)
(***************************************************************************)
EXTENDS AdfAlgo, TLC

CONSTANTS N, AdfSetKind, TwoValMode, Contract, FixedFoldC

NG == INSTANCE NoGoodsOps WITH V <- N, FixedFold <- FixedFoldC, FixedSubsume <- TRUE

Funs == IF AdfSetKind = "all" THEN SUBSET Assign(N)
        ELSE { {}, Assign(N) } \cup
             { { A \in Assign(N) : s \in A } : s \in 1..N } \cup
             { { A \in Assign(N) : s \notin A } : s \in 1..N } \cup
             { { A \in Assign(N) : 1 \in A /\ 2 \notin A }, { A \in Assign(N) : (1 \in A) # (N \in A) } }

VARIABLES adf, cur, stack, hist, store, backtrack, choice, out, done, steps, last

vars == <<adf, cur, stack, hist, store, backtrack, choice, out, done, steps, last>>

TOPF_ == Assign(N)
IsTV(f) == IsConst(f, N)
Decided(I) == DecidedOf(I, N)
ApplyInterp(acs, I) == [s \in 1..N |-> RestrictAll(acs[s], Decided(I), TrueOnes(I, N), N)]
UpdateInterp(I) == ApplyInterp(I, I)
ToNg(I) == [act |-> Decided(I), val |-> TrueOnes(I, N)]
\* NoGood::update_term_vec
UpdTV(ng, I) == [s \in 1..N |-> IF s \in ng.act THEN (IF s \in ng.val THEN TOPF_ ELSE {}) ELSE I[s]]
Upd(ng, I) == \E s \in ng.act : ~IsTV(I[s])

RECURSIVE ClosureLoop(_, _)
ClosureLoop(st, r) == LET c == NG!Conclusions(st, ToNg(r)) IN
                      IF c = NG!NoVal THEN <<"Inconsistent", r>>
                      ELSE IF Upd(c, r) THEN ClosureLoop(st, UpdTV(c, r)) ELSE <<"Update", UpdTV(c, r)>>
Closure(st, I) == LET c == NG!Conclusions(st, ToNg(I)) IN
                  IF c = NG!NoVal THEN <<"Inconsistent", I>>
                  ELSE IF ~Upd(c, I) THEN <<"NoUpdate", I>>
                  ELSE ClosureLoop(st, UpdTV(c, I))

StabilityCheckI(I) == LET FS == { s \in 1..N : I[s] = {} }
                          red == [s \in 1..N |-> RestrictAll(adf[s], FS, {}, N)]
                          g == GroundedInternal(red, N)
                      IN \A s \in 1..N : TV3(g[s], N) = TV3(I[s], N)

(***************************************************************************)
(* The built-in heuristics (lib/src/adf/heuristics.rs) as deterministic    *)
(* refinements of the nondeterministic pick: Simple, and the two counting  *)
(* heuristics (path counts of the canonical diagram of each residual       *)
(* function under the statement order, passive variable impact, first      *)
(* minimum of Iterator::min_by, value = more_models of the path counts).   *)
(***************************************************************************)
CofN(f, s, b) == { A \in Assign(N) : (IF b THEN A \cup {s} ELSE A \ {s}) \in f }
DepsN(f) == { s \in 1..N : CofN(f, s, TRUE) # CofN(f, s, FALSE) }
RECURSIVE PathCntN(_)
PathCntN(f) == IF f = TOPF_ THEN <<0, 1>> ELSE IF f = {} THEN <<1, 0>>
               ELSE LET v == CHOOSE s \in DepsN(f) : \A t \in DepsN(f) : s <= t
                        lo == PathCntN(CofN(f, v, FALSE))
                        hi == PathCntN(CofN(f, v, TRUE))
                    IN <<lo[1] + hi[1], lo[2] + hi[2]>>
MinPathsN(f) == LET pc == PathCntN(f) IN IF pc[1] < pc[2] THEN pc[1] ELSE pc[2]
MoreModelsN(f) == LET pc == PathCntN(f) IN pc[2] >= pc[1]
PassiveN(v, I) == Cardinality({ s \in 1..N : v \in DepsN(I[s]) })
LessPair(a, b) == a[1] < b[1] \/ (a[1] = b[1] /\ a[2] < b[2])
HeuKey(h, v, I) == IF h = "MinModMinPathsMaxVarImp" THEN <<MinPathsN(I[v]), PassiveN(v, I)>> ELSE <<PassiveN(v, I), MinPathsN(I[v])>>
HeuPick(h, I) ==
  LET U == (1..N) \ Decided(I) IN
  IF h = "Simple" THEN << CHOOSE v \in U : \A w \in U : v <= w, TRUE >>
  ELSE LET v == CHOOSE x \in U : \A w \in U \ {x} : LessPair(HeuKey(h, x, I), HeuKey(h, w, I)) \/ (HeuKey(h, x, I) = HeuKey(h, w, I) /\ x < w)
       IN << v, MoreModelsN(I[v]) >>

Init == /\ adf \in [1..N -> Funs]
        /\ cur = GroundedInternal(adf, N)
        /\ stack = <<>> /\ hist = <<>> /\ store = NG!EmptyStore
        /\ backtrack = FALSE /\ choice = FALSE /\ out = <<>> /\ done = FALSE /\ steps = 0
        /\ last = "start"

RECURSIVE AddAll(_, _, _)
AddAll(st, sq, i) == IF i > Len(sq) THEN st ELSE AddAll(NG!AddNg(st, "Equiv", sq[i].ng), sq, i + 1)

Picks == IF choice
         THEN { <<s, b>> : s \in (IF Contract THEN (1..N) \ Decided(cur) ELSE 1..N), b \in BOOLEAN }
         ELSE { <<0, FALSE>> }

Iterate(pick) ==
  LET cur1   == IF choice THEN [cur EXCEPT ![pick[1]] = IF pick[2] THEN TOPF_ ELSE {}] ELSE cur
      hist1  == IF choice THEN Append(hist, cur) ELSE hist
      stack1 == IF choice THEN Append(stack, [ch |-> TRUE, ng |-> ToNg(cur1)]) ELSE stack
  IN
  IF backtrack /\ stack1 = <<>> THEN
       /\ done' = TRUE /\ last' = "done"
       /\ UNCHANGED <<adf, cur, stack, hist, store, backtrack, choice, out>>
  ELSE
  LET CI     == { i \in 1..Len(stack1) : stack1[i].ch }
      k      == IF CI = {} THEN 0 ELSE CHOOSE i \in CI : \A j \in CI : j <= i
      \* the pop loop adds the popped nogoods in pop order (top first) - order is immaterial for a set store
      popped == IF ~backtrack THEN <<>> ELSE SubSeq(stack1, IF k = 0 THEN 1 ELSE k, Len(stack1))
      store2 == AddAll(store, popped, 1)
      stack2 == IF ~backtrack THEN stack1 ELSE IF k = 0 THEN <<>> ELSE SubSeq(stack1, 1, k - 1)
      cur2   == IF backtrack /\ k > 0 THEN hist1[Len(hist1)] ELSE cur1
      hist2  == IF backtrack /\ k > 0 THEN SubSeq(hist1, 1, Len(hist1) - 1) ELSE hist1
      cl     == Closure(store2, cur2)
  IN
  /\ done' = FALSE /\ store' = store2 /\ hist' = hist2 /\ adf' = adf
  /\ IF cl[1] = "Inconsistent" THEN
        /\ backtrack' = TRUE /\ choice' = FALSE /\ cur' = cur2 /\ stack' = stack2 /\ out' = out
        /\ last' = "ng-conflict"
     ELSE
     LET updng  == cl[1] = "Update"
         cur3   == IF updng THEN cl[2] ELSE cur2
         stack3 == IF updng THEN Append(stack2, [ch |-> FALSE, ng |-> ToNg(cur3)]) ELSE stack2
         acs    == ApplyInterp(adf, cur3)
     IN
     IF \E s \in 1..N : IsTV(cur3[s]) /\ IsTV(acs[s]) /\ cur3[s] # acs[s] THEN
        /\ backtrack' = TRUE /\ choice' = FALSE /\ cur' = cur3 /\ stack' = stack3 /\ out' = out
        /\ last' = "ac-conflict"
     ELSE
     LET cur4  == UpdateInterp(cur3)
         updfp == cur4 # cur3
     IN
     /\ cur' = cur4
     /\ IF updfp \/ updng THEN /\ backtrack' = FALSE /\ choice' = FALSE /\ stack' = stack3 /\ out' = out
                               /\ last' = "propagate"
        ELSE IF Decided(cur4) # 1..N THEN /\ backtrack' = FALSE /\ choice' = TRUE /\ stack' = stack3 /\ out' = out
                                          /\ last' = "need-choice"
        ELSE /\ backtrack' = TRUE /\ choice' = FALSE
             /\ stack' = Append(stack3, [ch |-> FALSE, ng |-> ToNg(cur4)])
             /\ IF TwoValMode \/ StabilityCheckI(cur4)
                THEN out' = Append(out, ToInterp(cur4, N)) /\ last' = "emit"
                ELSE out' = out /\ last' = "not-stable"

Next == ~done /\ steps' = steps + 1 /\ \E pick \in Picks : Iterate(pick)
Spec == Init /\ [][Next]_vars
FairSpec == Spec /\ WF_vars(Next)

\* -------- properties --------
Target == IF TwoValMode THEN TwoValDirect(adf, N) ELSE Stable(adf, N)
\* at the end: exactly the (stable | two-valued) models, each once
Exact == done => ExactlyOnce(out, Target)
\* nothing wrong is ever sent, nothing twice
Safe == NoDup(out) /\ Range(out) \subseteq Target
\* the two stacks stay synchronous (the code's expect() never fires)
LockStep == Len(hist) = Cardinality({ i \in 1..Len(stack) : stack[i].ch })
\* termination bound: no more iterations than 4 * 3^N + 4
Pow3 == [i \in 0..N |-> IF i = 0 THEN 1 ELSE IF i = 1 THEN 3 ELSE IF i = 2 THEN 9 ELSE IF i = 3 THEN 27 ELSE 81]
Bounded == steps <= 4 * Pow3[N] + 4
\* every stored nogood really excludes only non-answers: a two-valued interpretation matched by a learned
\* nogood was either already delivered or is not an answer
StoreSound == \A t \in Target : (\E ng \in NG!StoreSet(store) : NG!IsViolating(ng, [act |-> 1..N, val |-> TrueOf(t, N)]))
                                  => t \in Range(out)
Terminates == <>done

View == <<adf, cur, stack, hist, store, backtrack, choice, out, done, last>>
=============================================================================
