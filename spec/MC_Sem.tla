-------------------------------- MODULE MC_Sem --------------------------------
(***************************************************************************)
(* Model checking the algorithmic transcriptions (AdfAlgo) against the     *)
(* definitions (AdfSem) for EVERY ADF over N statements, as a small state  *)
(* machine: pick an ADF, run grounded_internal round by round, then the    *)
(* complete / stable pipelines.                                            *)
(***************************************************************************)
EXTENDS AdfAlgo, TLC

CONSTANTS N,          \* number of statements
          FunSet      \* "all" or "sample": which Boolean functions each statement may take

Funs == IF FunSet = "all" THEN SUBSET Assign(N)
        ELSE \* structured sample for N = 3: constants, literals, and/or/xor/iff of two, majority-like
             { {}, Assign(N) } \cup
             { { A \in Assign(N) : s \in A } : s \in 1..N } \cup
             { { A \in Assign(N) : s \notin A } : s \in 1..N } \cup
             { { A \in Assign(N) : 1 \in A /\ 2 \notin A }, { A \in Assign(N) : 2 \in A \/ N \notin A },
               { A \in Assign(N) : (1 \in A) # (N \in A) }, { A \in Assign(N) : (2 \in A) <=> (N \in A) },
               { A \in Assign(N) : Cardinality(A) >= 2 } }

VARIABLES adf, phase, cur

vars == <<adf, phase, cur>>

Init == /\ adf \in [1..N -> Funs]
        /\ phase = "ground"
        /\ cur = adf

\* one Jacobi round of grounded_internal
Round == /\ phase = "ground"
         /\ LET J == GroundRound(cur, N) IN
            /\ cur' = J
            /\ phase' = IF Cardinality(DecidedOf(J, N)) = Cardinality(DecidedOf(cur, N)) THEN "answers" ELSE "ground"
         /\ UNCHANGED adf

Answers == /\ phase = "answers"
           /\ phase' = "done"
           /\ UNCHANGED <<adf, cur>>

Next == Round \/ Answers
Spec == Init /\ [][Next]_vars

G == Grounded(adf, N)

\* every constant the rounds produce is a constant of the least fixpoint (soundness at every step)
GroundSound == \A s \in 1..N : IsConst(cur[s], N) => TV3(cur[s], N) = G[s]
\* when the loop exits the vector IS the least fixpoint
GroundExact == phase # "ground" => ToInterp(cur, N) = G
\* residuals are the acs restricted by the decided statements (what hybrid_step imports)
ResidualOK == phase # "ground" =>
                \A s \in 1..N : cur[s] = RestrictAll(adf[s], { t \in 1..N : G[t] # "U" }, { t \in 1..N : G[t] = "T" }, N)

AnswersOK == phase = "answers" =>
  LET CO == Complete(adf, N)  ST == Stable(adf, N)  ca == CompleteAlgo(adf, N)  sa == StableAlgo(adf, N) IN
  /\ GroundedAlgo(adf, N) = G
  /\ G \in CO /\ \A v \in CO : LeqI(G, v, N)
  /\ ExactlyOnce(ca, CO) /\ ca[1] = G
  /\ ExactlyOnce(sa, ST)
  /\ ExactlyOnce(PrefilterAlgo(adf, N), ST)
  /\ RewriteAlgo(adf, N) = ST
  \* the textbook definition and the implementation's all-positions test agree
  /\ ST = { v \in TwoVal(adf, N) : IsStableAllPos(adf, v, N) }
  /\ ST \subseteq TwoVal(adf, N) /\ TwoVal(adf, N) \subseteq CO
  /\ TwoVal(adf, N) = TwoValDirect(adf, N)
  \* the pre-grounded (hybrid) ADF has the same answers
  /\ LET h == HybridAcs(adf, N) IN
       /\ Grounded(h, N) = G /\ Complete(h, N) = CO /\ Stable(h, N) = ST
       /\ ExactlyOnce(StableAlgo(h, N), ST) /\ ExactlyOnce(CompleteAlgo(h, N), CO)
=============================================================================
