--------------------------------- MODULE Cli ---------------------------------
(***************************************************************************)
(* bin/src/main.rs as a sequential machine: the three library arms are     *)
(* modelled AS IMPLEMENTED - which semantics flags each arm honours and in *)
(* which order it prints the sections.  A flag an arm does not implement   *)
(* contributes no section (reading fixed in DESIGN.md section 6/C15).      *)
(*   hybrid    : grd com twoval stm stmca stmcb stmpre (stmrew|stmrew2) stmng *)
(*   biodivine : grd com stm (stmrew|stmrew2)                              *)
(*   naive     : grd com stm stmng                                         *)
(* Section kinds: "G" grounded, "C" complete, "W" two-valued, "S" stable.  *)
(***************************************************************************)
EXTENDS Naturals, Sequences, FiniteSets, TLC

Libs == {"naive", "biodivine", "hybrid"}
Flags == {"grd", "com", "stm", "stmpre", "stmrew", "stmrew2", "stmca", "stmcb", "stmng", "twoval"}

Sec(cond, kind, flag) == IF cond THEN << <<kind, flag>> >> ELSE <<>>

\* the sections an arm prints for a flag set, in print order
Sections(lib, F) ==
  CASE lib = "hybrid" ->
         Sec("grd" \in F, "G", "grd") \o Sec("com" \in F, "C", "com") \o Sec("twoval" \in F, "W", "twoval")
         \o Sec("stm" \in F, "S", "stm") \o Sec("stmca" \in F, "S", "stmca") \o Sec("stmcb" \in F, "S", "stmcb")
         \o Sec("stmpre" \in F, "S", "stmpre") \o Sec("stmrew" \in F \/ "stmrew2" \in F, "S", "stmrew")
         \o Sec("stmng" \in F, "S", "stmng")
    [] lib = "biodivine" ->
         Sec("grd" \in F, "G", "grd") \o Sec("com" \in F, "C", "com") \o Sec("stm" \in F, "S", "stm")
         \o Sec("stmrew" \in F \/ "stmrew2" \in F, "S", "stmrew")
    [] lib = "naive" ->
         Sec("grd" \in F, "G", "grd") \o Sec("com" \in F, "C", "com") \o Sec("stm" \in F, "S", "stm")
         \o Sec("stmng" \in F, "S", "stmng")

Kinds(sq) == [i \in DOMAIN sq |-> sq[i][1]]

(***************************************************************************)
(* The machine: pc walks the arm; out collects the kinds printed so far.   *)
(***************************************************************************)
VARIABLES lib, flags, pc, out
vars == <<lib, flags, pc, out>>

Init == lib \in Libs /\ flags \in SUBSET Flags /\ pc = 1 /\ out = <<>>
PrintSection == /\ pc <= Len(Sections(lib, flags))
         /\ out' = Append(out, Sections(lib, flags)[pc][1])
         /\ pc' = pc + 1
         /\ UNCHANGED <<lib, flags>>
Next == PrintSection
Spec == Init /\ [][Next]_vars

\* documented order: grounded, then complete, then (two-valued,) stable
Rank(k) == CASE k = "G" -> 1 [] k = "C" -> 2 [] k = "W" -> 3 [] k = "S" -> 4
OrderOK == \A i, j \in DOMAIN out : i < j => Rank(out[i]) <= Rank(out[j])
\* on the flags every arm honours, the three arms print the same sections
Common == {"grd", "com", "stm"}
SameOnCommon == flags \subseteq Common =>
                  \A l1, l2 \in Libs : Kinds(Sections(l1, flags)) = Kinds(Sections(l2, flags))
\* the rewriting flags are honoured by biodivine and hybrid alike
RewSame == flags \subseteq (Common \cup {"stmrew", "stmrew2"}) =>
             Kinds(Sections("biodivine", flags)) = Kinds(Sections("hybrid", flags))
\* every requested semantics that an arm implements is printed exactly once
Done == pc > Len(Sections(lib, flags)) =>
          /\ ("grd" \in flags) = (Cardinality({ i \in DOMAIN out : out[i] = "G" }) = 1)
          /\ ("com" \in flags) = (Cardinality({ i \in DOMAIN out : out[i] = "C" }) = 1)
          /\ ("stm" \in flags) => \E i \in DOMAIN out : out[i] = "S"
=============================================================================
