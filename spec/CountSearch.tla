----------------------------- MODULE CountSearch -----------------------------
(***************************************************************************)
(* Adf::two_val_model_counts_logic (the counting-guided stable search,     *)
(* heuristics a and b) transcribed over truth tables.  Path cubes and path *)
(* counts are those of the canonical diagram of the residual function      *)
(* under the statement order, computed from the truth table (top variable  *)
(* = smallest variable the function depends on), so no node table is       *)
(* needed.  UND is the non-constant sentinel the code writes as Term::UND. *)
(*                                                                         *)
(* FixedLoop = FALSE reproduces the shipped loop that stopped at the first *)
(* inconsistent cube; FixedMore = FALSE the shipped more_models (always    *)
(* true).  AnyOrder = TRUE replaces the heuristic by an arbitrary choice   *)
(* of the branching statement (is the procedure exact for EVERY order?).   *)
(***************************************************************************)
EXTENDS AdfAlgo, TLC

CONSTANTS N, AdfSetKind, FixedLoop, FixedMore

Stmts == 1..N
AssignN == Assign(N)
TOPF_ == AssignN
IsTV(f) == f = {} \/ f = TOPF_

Cof(f, s, b) == { A \in AssignN : (IF b THEN A \cup {s} ELSE A \ {s}) \in f }
Deps(f) == { s \in Stmts : Cof(f, s, TRUE) # Cof(f, s, FALSE) }
TopVar(f) == CHOOSE s \in Deps(f) : \A t \in Deps(f) : s <= t

RECURSIVE PathCnt(_)
PathCnt(f) == IF f = TOPF_ THEN <<0, 1>> ELSE IF f = {} THEN <<1, 0>>
              ELSE LET v == TopVar(f)
                       lo == PathCnt(Cof(f, v, FALSE))
                       hi == PathCnt(Cof(f, v, TRUE))
                   IN <<lo[1] + hi[1], lo[2] + hi[2]>>
MinPaths(f) == LET p == PathCnt(f) IN IF p[1] < p[2] THEN p[1] ELSE p[2]
\* ModelCounts::more_models on PATH counts
MoreModels(f) == LET p == PathCnt(f) IN IF FixedMore THEN p[2] >= p[1] ELSE TRUE

\* Bdd::interpretations(tree, goal, goal_var, [], []): hi before lo, cubes as <<negative, positive>>
RECURSIVE Cubes(_, _, _, _, _)
Cubes(f, goal, gv, neg, pos) ==
  IF IsTV(f) THEN <<>>
  ELSE LET v  == TopVar(f)
           hi == Cof(f, v, TRUE)
           lo == Cof(f, v, FALSE)
           hiPart == IF (gv # v) \/ goal
                     THEN IF IsTV(hi) THEN (IF (hi = TOPF_) = goal THEN << <<neg, Append(pos, v)>> >> ELSE <<>>)
                          ELSE Cubes(hi, goal, gv, neg, Append(pos, v))
                     ELSE <<>>
           loPart == IF (gv # v) \/ ~goal
                     THEN IF IsTV(lo) THEN (IF (lo = TOPF_) = goal THEN << <<Append(neg, v), pos>> >> ELSE <<>>)
                          ELSE Cubes(lo, goal, gv, Append(neg, v), pos)
                     ELSE <<>>
       IN hiPart \o loPart

Decided(I) == { s \in Stmts : IsTV(I[s]) }
TrueOnesI(I) == { s \in Stmts : I[s] = TOPF_ }
ApplyInterp(acs, I) == [s \in Stmts |-> RestrictAll(acs[s], Decided(I), TrueOnesI(I), N)]
UpdateInterp(I) == ApplyInterp(I, I)
CompareInf(f, g) == (IsTV(f) = IsTV(g)) /\ ((f = TOPF_) = (g = TOPF_))
NoInfInc(a, b) == CompareInf(a, b) \/ ~IsTV(a)
CheckCons(int, wb) == \A s \in Stmts : NoInfInc(wb[s], int[s])
UND == { A \in AssignN : 1 \in A }        \* any non-constant function serves as Term::UND

Passive(v, I) == Cardinality({ s \in Stmts : v \in Deps(I[s]) })
Active(v, I) == Cardinality(Deps(I[v]))
\* comparator keys; Iterator::min_by returns the FIRST minimum
KeyA(v, I) == << N - Passive(v, I), Active(v, I), MinPaths(I[v]) >>
KeyB(v, I) == << MinPaths(I[v]), N - Passive(v, I), 0 >>
Key(h, v, I) == IF h = "a" THEN KeyA(v, I) ELSE KeyB(v, I)
Less(k1, k2) == \/ k1[1] < k2[1]
                \/ (k1[1] = k2[1] /\ k1[2] < k2[2])
                \/ (k1[1] = k2[1] /\ k1[2] = k2[2] /\ k1[3] < k2[3])
Pick(h, C, I) == CHOOSE v \in C : \A w \in C \ {v} :
                    Less(Key(h, v, I), Key(h, w, I)) \/ (Key(h, v, I) = Key(h, w, I) /\ v < w)

SetTo(I, sq, val) == [s \in Stmts |-> IF \E i \in DOMAIN sq : sq[i] = s THEN val ELSE I[s]]

RECURSIVE Logic(_, _, _, _)
RECURSIVE OverCubes(_, _, _, _, _, _, _, _)
OverCubes(h, adf, I, wb, idx, cm, cubes, i) ==
  IF i > Len(cubes) THEN <<>>
  ELSE LET neg == cubes[i][1]
           pos == cubes[i][2]
           ok  == /\ \A j \in DOMAIN neg : ~(I[neg[j]] = TOPF_ \/ wb[neg[j]] = TOPF_)
                  /\ \A j \in DOMAIN pos : ~(I[pos[j]] = {} \/ wb[pos[j]] = {})
       IN IF ~ok THEN (IF FixedLoop THEN OverCubes(h, adf, I, wb, idx, cm, cubes, i + 1) ELSE <<>>)
          ELSE LET n1  == SetTo(SetTo(I, neg, {}), pos, TOPF_)
                   n2  == [n1 EXCEPT ![idx] = IF cm THEN TOPF_ ELSE {}]
                   upd == UpdateInterp(n2)
                   sub == IF CheckCons(upd, wb) THEN Logic(h, adf, upd, wb) ELSE <<>>
               IN sub \o OverCubes(h, adf, I, wb, idx, cm, cubes, i + 1)

Logic(h, adf, I, wb) ==
  LET C == { s \in Stmts : ~IsTV(I[s]) /\ ~IsTV(wb[s]) } IN
  IF C # {} THEN
     LET idx    == Pick(h, C, I)
         ac     == I[idx]
         cm     == ~MoreModels(ac)              \* check_models
         cubes  == Cubes(ac, cm, idx, <<>>, <<>>)
         first  == OverCubes(h, adf, I, wb, idx, cm, cubes, 1)
         n2     == [s \in Stmts |-> Cof(I[s], idx, ~cm)]
         u2     == UpdateInterp(n2)
         second == IF NoInfInc(n2[idx], u2[idx])
                   THEN LET u3 == [u2 EXCEPT ![idx] = IF cm THEN {} ELSE TOPF_] IN
                        IF NoInfInc(n2[idx], u3[idx])
                        THEN Logic(h, adf, u3, [wb EXCEPT ![idx] = n2[idx]])
                        ELSE <<>>
                   ELSE <<>>
     IN first \o second
  ELSE LET concluded == [s \in Stmts |-> IF ~IsTV(I[s]) THEN wb[s] ELSE I[s]]
           result    == ApplyInterp(adf, concluded)
       IN IF CheckCons(result, concluded) THEN <<result>> ELSE <<I>>

\* the recursion entries of Logic in the order the code makes them (pre-order): <<interpretation, will_be, depth>> as T/F/U
TVf(f) == IF f = TOPF_ THEN "T" ELSE IF f = {} THEN "F" ELSE "U"
TVI(I) == [s \in Stmts |-> TVf(I[s])]
RECURSIVE Visits(_, _, _, _, _)
RECURSIVE VisitsCubes(_, _, _, _, _, _, _, _, _)
VisitsCubes(h, adf, I, wb, idx, cm, cubes, i, d) ==
  IF i > Len(cubes) THEN <<>>
  ELSE LET neg == cubes[i][1]
           pos == cubes[i][2]
           ok  == /\ \A j \in DOMAIN neg : ~(I[neg[j]] = TOPF_ \/ wb[neg[j]] = TOPF_)
                  /\ \A j \in DOMAIN pos : ~(I[pos[j]] = {} \/ wb[pos[j]] = {})
       IN IF ~ok THEN (IF FixedLoop THEN VisitsCubes(h, adf, I, wb, idx, cm, cubes, i + 1, d) ELSE <<>>)
          ELSE LET n1  == SetTo(SetTo(I, neg, {}), pos, TOPF_)
                   n2  == [n1 EXCEPT ![idx] = IF cm THEN TOPF_ ELSE {}]
                   upd == UpdateInterp(n2)
                   sub == IF CheckCons(upd, wb) THEN Visits(h, adf, upd, wb, d + 1) ELSE <<>>
               IN sub \o VisitsCubes(h, adf, I, wb, idx, cm, cubes, i + 1, d)
Visits(h, adf, I, wb, d) ==
  LET C == { s \in Stmts : ~IsTV(I[s]) /\ ~IsTV(wb[s]) }
      here == << <<TVI(I), TVI(wb), d>> >> IN
  IF C # {} THEN
     LET idx    == Pick(h, C, I)
         ac     == I[idx]
         cm     == ~MoreModels(ac)
         cubes  == Cubes(ac, cm, idx, <<>>, <<>>)
         first  == VisitsCubes(h, adf, I, wb, idx, cm, cubes, 1, d)
         n2     == [s \in Stmts |-> Cof(I[s], idx, ~cm)]
         u2     == UpdateInterp(n2)
         second == IF NoInfInc(n2[idx], u2[idx])
                   THEN LET u3 == [u2 EXCEPT ![idx] = IF cm THEN {} ELSE TOPF_] IN
                        IF NoInfInc(n2[idx], u3[idx])
                        THEN Visits(h, adf, u3, [wb EXCEPT ![idx] = n2[idx]], d + 1)
                        ELSE <<>>
                   ELSE <<>>
     IN here \o first \o second
  ELSE here
VisitsFromStart(h, adf) == Visits(h, adf, GroundedInternal(adf, N), [s \in Stmts |-> UND], 0)

\* stable_count_optimisation_heu_{a,b}: candidates filtered by stability_check
CountStable(h, adf) ==
  LET cands == Logic(h, adf, GroundedInternal(adf, N), [s \in Stmts |-> UND]) IN
  SelectSeq([i \in DOMAIN cands |-> ToInterp(cands[i], N)],
            LAMBDA v : StabilityCheck(adf, v, N))

(******************************* machine ***********************************)
Funs == IF AdfSetKind = "all" THEN SUBSET AssignN
        ELSE { {}, AssignN } \cup
             { { A \in AssignN : s \in A } : s \in Stmts } \cup
             { { A \in AssignN : s \notin A } : s \in Stmts } \cup
             { { A \in AssignN : 1 \in A /\ 2 \in A }, { A \in AssignN : 2 \in A /\ 1 \in A /\ N \notin A},
               { A \in AssignN : 1 \in A /\ 2 \notin A }, { A \in AssignN : (1 \in A) # (N \in A) },
               { A \in AssignN : 2 \in A \/ N \in A } }

VARIABLES adf, heu, out, phase
vars == <<adf, heu, out, phase>>
Init == adf \in [Stmts -> Funs] /\ heu \in {"a", "b"} /\ out = <<>> /\ phase = "start"
Search == phase = "start" /\ out' = CountStable(heu, adf) /\ phase' = "done" /\ UNCHANGED <<adf, heu>>
Next == Search
Spec == Init /\ [][Next]_vars

Exact == phase = "done" => ExactlyOnce(out, Stable(adf, N))
=============================================================================
