------------------------------- MODULE NoGoods -------------------------------
(***************************************************************************)
(* State machine over the nogood store (C18): any sequence of add_ng calls *)
(* under any duplicate-elimination mode, mode switches included.  After    *)
(* every step the four clauses of the property are evaluated for EVERY     *)
(* partial interpretation.                                                 *)
(***************************************************************************)
EXTENDS NoGoodsOps, TLC

CONSTANTS MaxAdds, Modes

VARIABLES store, added, mode

vars == <<store, added, mode>>

Init == store = EmptyStore /\ added = {} /\ mode \in Modes

Add(ng) == /\ Cardinality(added) < MaxAdds
           /\ ng \notin added
           /\ store' = AddNg(store, mode, ng)
           /\ added' = added \cup {ng}
           /\ UNCHANGED mode

\* re-adding an already added nogood (duplicates)
ReAdd(ng) == /\ ng \in added
             /\ store' = AddNg(store, mode, ng)
             /\ UNCHANGED <<added, mode>>

SetMode(m) == mode' = m /\ m # mode /\ UNCHANGED <<store, added>>

Next == \/ \E ng \in PA \ {EmptyPA} : Add(ng) \/ ReAdd(ng)
        \/ \E m \in Modes : SetMode(m)

Spec == Init /\ [][Next]_vars

\* (1) conclusions contain only forced assignments
P1 == \A I \in PA : LET c == Conclusions(store, I) IN c # NoVal => OnlyForced(added, I, c)
\* (2) a conflict is reported only if no total extension avoids all added nogoods
P2 == \A I \in PA : Conclusions(store, I) = NoVal => Safe(added, I) = {}
\* (3) ... and always when the interpretation itself matches one
P3 == \A I \in PA : (\E ng \in added : IsViolating(ng, I)) => Conclusions(store, I) = NoVal
\* (4) nothing forgotten, nothing invented
P4 == Excluded(StoreSet(store)) = Excluded(added)
\* closure: same clauses for the iterated conclusions
P5 == \A I \in PA : LET cl == Closure(store, I) IN
        /\ cl[1] = "Inconsistent" => Safe(added, I) = {}
        /\ cl[1] # "Inconsistent" => OnlyForced(added, I, cl[2])
\* shape
TypeOK == \A k \in 1..V : \A ng \in store[k] : ng \in PA /\ Cardinality(ng.act) = k
=============================================================================
