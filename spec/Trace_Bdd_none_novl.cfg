SPECIFICATION Spec
CONSTANTS VariableList = FALSE
          AdHocCounting = FALSE
          AdHocModels = FALSE
POSTCONDITION Consumed
CHECK_DEADLOCK FALSE
