-------------------------------- MODULE CliFs --------------------------------
(***************************************************************************)
(* The CLI's dealings with the file system (bin/src/main.rs, naive arm):   *)
(* a session is a sequence of invocations in one directory.  An invocation *)
(* reads its source either as ADF text or (--import) as an exported state, *)
(* and may be asked to --export the state to a path: the file is created   *)
(* only if nothing exists under that name.                                 *)
(* File contents are abstract: <<"adf", a>> the text of ADF a,             *)
(* <<"export", a>> an exported state of ADF a, <<"junk">> anything else.   *)
(* Checked: no invocation ever changes or removes an existing file (C14),  *)
(* every exported state holds the ADF of the invocation that wrote it, and *)
(* an import answers for exactly that ADF.                                 *)
(***************************************************************************)
EXTENDS CliFsOps, Naturals, Sequences, FiniteSets, TLC

CONSTANTS Names,      \* file names of the directory
          Adfs,       \* abstract ADFs
          MaxRuns

VARIABLES fs, last, nruns
vars == <<fs, last, nruns>>

Contents == { <<"adf", a>> : a \in Adfs } \cup { <<"export", a>> : a \in Adfs } \cup { <<"junk">> }
\* any directory to start from
Init == /\ \E D \in SUBSET Names : fs \in [D -> Contents]
        /\ last = [ok |-> FALSE, ans |-> "none", src |-> "", imp |-> FALSE]
        /\ nruns = 0
Run(run) == /\ nruns < MaxRuns /\ nruns' = nruns + 1
            /\ fs' = FsAfter(fs, run)
            /\ last' = [ok |-> Readable(fs, run), ans |-> IF Readable(fs, run) THEN AdfOf(fs, run) ELSE "none", src |-> run.src, imp |-> run.imp]
Next == \E s \in Names, i \in BOOLEAN, e \in Names \cup {""} : Run([src |-> s, imp |-> i, exp |-> e])
Spec == Init /\ [][Next]_vars

\* C14: the CLI never overwrites (or removes) an existing file
NeverOverwrite == [][\A n \in DOMAIN fs : n \in DOMAIN fs' /\ fs'[n] = fs[n]]_vars
\* at most one file appears per invocation, and it is an exported state
OneNewExport == [][\A n \in DOMAIN fs' \ DOMAIN fs : fs'[n][1] = "export" /\ Cardinality(DOMAIN fs' \ DOMAIN fs) = 1]_vars
\* an import answers for the ADF whose state was exported
View == <<fs, nruns>>
=============================================================================
