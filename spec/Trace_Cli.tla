------------------------------- MODULE Trace_Cli -------------------------------
(***************************************************************************)
(* Trace validator for runs of the real adf-bdd binary (C15, CLI part of   *)
(* C14).  The expected output is derived from the model of the arms        *)
(* (Cli!Sections) and the definitional semantics (AdfSem) of the logged    *)
(* ASTs; stdout is split deterministically by the expected section sizes   *)
(* and every slice compared as a set of label->value maps, each printed    *)
(* exactly once; label order inside a line per the sorting flag.           *)
(***************************************************************************)
EXTENDS AdfCompose, AdfSyntax, Cli, CliFsOps, Integers, Json, IOUtils

Rec == ndJsonDeserialize(IOEnv.TRACE)
VARIABLE l

RangeOf(sq) == { sq[i] : i \in DOMAIN sq }
Report(ok, id, prop, what) == ok \/ PrintT(<<"MISMATCH", l, id, prop, what>>)

\* a definitional model (vector over declaration order) as a set of (value, label) pairs as printed
Sym(v) == IF v = "T" THEN "T" ELSE IF v = "F" THEN "F" ELSE "u"
AsPairs(v, labels) == { <<Sym(v[i]), labels[i]>> : i \in DOMAIN labels }
LineSet(line) == { <<line[i][1], line[i][2]>> : i \in DOMAIN line }
LineLabels(line) == [i \in DOMAIN line |-> line[i][2]]

SortedLex(ls) == \A i \in 1..(Len(ls) - 1) : LexLeq(ls[i], ls[i + 1])

RECURSIVE SumLen(_, _)
SumLen(sizes, i) == IF i > Len(sizes) THEN 0 ELSE sizes[i] + SumLen(sizes, i + 1)

CheckGood(r) ==
  LET n == r.n
      tt == TTs(r.asts, n)
      G  == Grounded(tt, n)
      CO == Complete(tt, n)
      TW == TwoValDirect(tt, n)
      ST == { v \in TW : IsStable(tt, v, n) }
      secs == Sections(r.lib, RangeOf(r.flags))
      Exp(k) == CASE k = "G" -> {G} [] k = "C" -> CO [] k = "W" -> TW [] k = "S" -> ST
      sizes == [i \in DOMAIN secs |-> Cardinality(Exp(secs[i][1]))]
      start(i) == SumLen(sizes, 1) - SumLen(sizes, i)          \* lines before section i
      f9 == r.opchars /\ r.lib # "naive"
  IN
  /\ Report(r.exit = 0, r.id, "C15", IF f9 THEN "exit-nonzero-opchar-label" ELSE "exit-nonzero")
  /\ r.exit = 0 =>
       /\ Report(Len(r.lines) = SumLen(sizes, 1), r.id, "C15", "number-of-lines")
       /\ Len(r.lines) = SumLen(sizes, 1) =>
            /\ \A i \in DOMAIN secs :
                 LET slice == SubSeq(r.lines, start(i) + 1, start(i) + sizes[i])
                     got == { LineSet(slice[j]) : j \in DOMAIN slice }
                 IN Report(got = { AsPairs(v, r.labels) : v \in Exp(secs[i][1]) } /\ Cardinality(got) = Len(slice),
                           r.id, "C15", <<"section", secs[i][2], r.lib>>)
            \* every statement labelled by its own name, in the order the sorting flag prescribes
            /\ \A j \in DOMAIN r.lines :
                 /\ Report(Len(r.lines[j]) = n /\ RangeOf(LineLabels(r.lines[j])) = RangeOf(r.labels), r.id, "C15", "labels")
                 /\ (r.sort = "none") => Report(LineLabels(r.lines[j]) = r.labels, r.id, "C15", "declaration-order")
                 /\ (r.sort = "lx") => Report(SortedLex(LineLabels(r.lines[j])), r.id, "C10", "lx-order-not-bytewise")
                 /\ Report(LineLabels(r.lines[j]) = LineLabels(r.lines[1]), r.id, "C15", "label-order-varies")
  /\ PrintT(<<"INFO", l, r.id, r.lib, Len(secs), Len(r.lines)>>)

\* composed frameworks (9-14 statements): same launch record plus the claimed decomposition, judged with AdfCompose
LineVec(line, labels) == [i \in DOMAIN labels |-> LET e == CHOOSE x \in RangeOf(line) : x[2] = labels[i] IN IF e[1] = "u" THEN "U" ELSE e[1]]
CheckGoodBig(r) ==
  IF ~ValidDecomp(r.asts, r.n, r.blocks, r.observers) THEN PrintT(<<"BADRECORD", l, r.id, "not a decomposition">>)
  ELSE
  LET n == r.n
      secs == Sections(r.lib, RangeOf(r.flags))
      needCo == \E i \in DOMAIN secs : secs[i][1] = "C"
      bs == IF needCo THEN BlockSem(r.asts, r.blocks) ELSE BlockSemLight(r.asts, r.blocks)
      G  == GroundedC(r.asts, n, r.blocks, r.observers, bs)
      Sel(k) == CASE k = "C" -> "co" [] k = "W" -> "tw" [] OTHER -> "st"
      sizes == [i \in DOMAIN secs |-> IF secs[i][1] = "G" THEN 1 ELSE CountC(bs, Sel(secs[i][1]), 1)]
      start(i) == SumLen(sizes, 1) - SumLen(sizes, i)
      wellLabelled == \A j \in DOMAIN r.lines : Len(r.lines[j]) = n /\ RangeOf(LineLabels(r.lines[j])) = RangeOf(r.labels)
  IN
  /\ Report(r.exit = 0, r.id, "C15", "exit-nonzero")
  /\ r.exit = 0 =>
       /\ Report(Len(r.lines) = SumLen(sizes, 1), r.id, "C15", "number-of-lines")
       /\ Report(wellLabelled, r.id, "C15", "labels")
       /\ (Len(r.lines) = SumLen(sizes, 1) /\ wellLabelled) =>
            /\ \A i \in DOMAIN secs :
                 LET slice == SubSeq(r.lines, start(i) + 1, start(i) + sizes[i])
                     vecs == [j \in DOMAIN slice |-> LineVec(slice[j], r.labels)]
                 IN Report(IF secs[i][1] = "G" THEN vecs = <<G>>
                           ELSE ExactlyOnceC(vecs, n, r.asts, r.blocks, r.observers, bs, Sel(secs[i][1]))
                                /\ (secs[i][1] = "C" => vecs[1] = G),
                           r.id, "C15", <<"section", secs[i][2], r.lib>>)
            /\ \A j \in DOMAIN r.lines :
                 /\ (r.sort = "none") => Report(LineLabels(r.lines[j]) = r.labels, r.id, "C15", "declaration-order")
                 /\ (r.sort = "lx") => Report(SortedLex(LineLabels(r.lines[j])), r.id, "C10", "lx-order-not-bytewise")
                 /\ Report(LineLabels(r.lines[j]) = LineLabels(r.lines[1]), r.id, "C15", "label-order-varies")
  /\ PrintT(<<"INFO", l, r.id, r.lib, Len(secs), Len(r.lines)>>)

\* --counter nai: per statement (declaration order) counter-models : models stand in the ratio falsifying : satisfying assignments
CheckCounter(r) ==
  LET n == r.n
      tt == TTs(r.asts, n)
      f9 == r.opchars /\ r.lib # "naive"
  IN
  /\ Report(r.exit = 0, r.id, "C15", IF f9 THEN "exit-nonzero-opchar-label" ELSE "exit-nonzero")
  /\ r.exit = 0 =>
       /\ Report(Len(r.counts) = n, r.id, "C13", "cli-counter-one-entry-per-statement")
       /\ Len(r.counts) = n =>
            \A i \in 1..n :
              LET sat == Cardinality(tt[i])  fal == Cardinality(Assign(n)) - sat IN
              Report(r.counts[i][1] >= 0 /\ r.counts[i][2] >= 0 /\ r.counts[i][1] + r.counts[i][2] > 0
                     /\ r.counts[i][1] * sat = r.counts[i][2] * fal, r.id, "C13", <<"cli-counter-ratio", i>>)
  /\ PrintT(<<"INFO", l, r.id, "counter", 0, 0>>)

\* malformed: outside even the lenient grammar, or grammatical but semantically bad (undeclared statement)
RECURSIVE AtomsOfAll(_, _)
AtomsOfAll(acs, i) == IF i > Len(acs) THEN {} ELSE AtomsOf(acs[i][3]) \cup {acs[i][2]} \cup AtomsOfAll(acs, i + 1)
CheckBad(r) ==
  LET strict == Parse(r.cp)
      lenient == ParseLenient(r.cp)
      undeclared == strict.ok /\ ~(AtomsOfAll(Acs(strict.facts), 1) \subseteq RangeOf(Names(strict.facts)))
      malformed == ~lenient.ok \/ undeclared
  IN
  /\ malformed => Report(r.exit # 0 /\ r.exit # -99 /\ r.lines = <<>>, r.id, "C15", "answer-for-malformed-input")
  /\ PrintT(<<"INFO", l, r.id, IF malformed THEN "malformed" ELSE "dontcare", r.exit, 0>>)

CheckPersist(r) ==
  /\ Report(r.export_exit = 0 /\ r.import_exit = 0, r.id, "C14", "cli-export-import-exit")
  /\ Report(r.import_out = r.export_out, r.id, "C14", "cli-import-answers-differ")
  /\ Report(r.hash_after = r.hash_before /\ r.changed_existing = <<>>, r.id, "C14", "cli-overwrote-existing-export")
  /\ PrintT(<<"INFO", l, r.id, "persist", 0, 0>>)

\* a whole session in one directory, followed with CliFs!FsAfter from the abstract initial directory
InitFs(r) == [n \in DOMAIN r.init |-> IF n \in {"a.adf", "b.adf"} THEN <<"adf", n>> ELSE <<"junk">>]
RECURSIVE FsWalk(_, _, _, _)
FsWalk(r, i, mfs, prev) ==
  IF i > Len(r.steps) THEN TRUE
  ELSE LET s == r.steps[i]
           run == [src |-> s.src, imp |-> s.imp, exp |-> s.exp]
           after == FsAfter(mfs, run)
       IN
       \* C14: whatever name is typed, no file that existed before the invocation is changed or removed
       /\ Report(\A n \in DOMAIN prev : n \in DOMAIN s.fs /\ s.fs[n] = prev[n], r.id, "C14", <<"cli-changed-existing-file", i, s.exp>>)
       \* C14: an imported state answers like the ADF it was exported from
       /\ (Readable(mfs, run) /\ s.imp) => Report(s.exit = 0 /\ s.out = r.refs[AdfOf(mfs, run)], r.id, "C14", <<"cli-import-answers-differ", i, s.src>>)
       /\ (Readable(mfs, run) /\ ~s.imp) => Report(s.exit = 0 /\ s.out = r.refs[AdfOf(mfs, run)], r.id, "C15", <<"cli-answers-vary-between-runs", i, s.src>>)
       \* model conformance (drift only): the directory after the invocation is the model's; unreadable sources are refused
       /\ ((DOMAIN s.fs = DOMAIN after /\ (Readable(mfs, run) \/ s.exit # 0)) \/ PrintT(<<"DRIFT", l, r.id, <<"directory-after-invocation", i>> >>))
       /\ FsWalk(r, i + 1, after, s.fs)
CheckFs(r) == /\ Report({"a.adf", "b.adf", "note.txt"} \subseteq DOMAIN r.init, r.id, "C14", "session-setup")
              /\ FsWalk(r, 1, InitFs(r), r.init)
              /\ PrintT(<<"INFO", l, r.id, "fs-session", Len(r.steps), 0>>)

Init2 == l = 1
Next2 == /\ l <= Len(Rec)
         /\ (CASE Rec[l].kind = "cli" -> CheckGood(Rec[l])
               [] Rec[l].kind = "cli_big" -> CheckGoodBig(Rec[l])
               [] Rec[l].kind = "cli_bad" -> CheckBad(Rec[l])
               [] Rec[l].kind = "cli_counter" -> CheckCounter(Rec[l])
               [] Rec[l].kind = "cli_persist" -> CheckPersist(Rec[l])
               [] Rec[l].kind = "cli_fs" -> CheckFs(Rec[l])) \in BOOLEAN
         /\ l' = l + 1
         /\ UNCHANGED vars
\* the machine variables of Cli are not used by the validator: pin them
TraceSpec == lib = "naive" /\ flags = {} /\ pc = 1 /\ out = <<>> /\ Init2 /\ [][Next2]_<<l, vars>>
Consumed == (TLCGet("stats").diameter - 1 = Len(Rec))
              \/ PrintT(<<"NOTCONSUMED", TLCGet("stats").diameter, Len(Rec)>>)
=============================================================================
