------------------------------- MODULE Persist -------------------------------
(***************************************************************************)
(* C14: an original store and a persisted copy evolving in lock-step.      *)
(*   Import  = serde export/import followed by fix_import: nodes and the   *)
(*             unique table survive, the memo tables are empty, dependency *)
(*             lists and the count cache are regenerated from the node list*)
(*   Rebuild = Bdd::from(Vec<BddNode>): every node is replayed through     *)
(*             Bdd::node on a fresh store (what server/src/adf.rs does).   *)
(* After either, every operation applied to both must return the same      *)
(* handle and leave identical node tables.                                 *)
(***************************************************************************)
EXTENDS RobddOps

CONSTANTS NV,
          FixedRepair     \* TRUE: fix_import rebuilds the dependency list (repaired, F13); FALSE: as shipped, it appends a second copy

VARIABLES O, C, has, lastO, lastC

vars == <<O, C, has, lastO, lastC>>

\* fix_import: generate_var_dependencies + modelcount_memoization of every handle
RECURSIVE RegenDeps(_, _, _)
RegenDeps(ns, i, acc) ==
  IF i > Len(ns) THEN acc
  ELSE LET n == ns[i] IN
       RegenDeps(ns, i + 1, Append(acc, IF n[1] >= VarBOT THEN {} ELSE acc[n[2] + 1] \cup acc[n[3] + 1] \cup {n[1]}))
RECURSIVE RegenCnt(_, _, _)
RegenCnt(ns, i, acc) ==       \* memoised counting computes real model counts
  IF i > Len(ns) THEN acc
  ELSE LET n == ns[i] IN RegenCnt(ns, i + 1, ((i - 1) :> CntOf2(acc[n[2]], acc[n[3]], TRUE)) @@ acc)

ImportFix(S) ==
  [nodes |-> S.nodes, uniq |-> S.uniq, ite |-> EmptyFn, rc |-> EmptyFn,
   deps |-> IF VariableList THEN RegenDeps(S.nodes, 1, <<>>) ELSE S.deps,
   cnt  |-> IF AdHocCounting THEN RegenCnt(S.nodes, 3, (1 :> CntTop) @@ (0 :> CntBot)) ELSE EmptyFn]

RECURSIVE RebuildFrom(_, _, _)
RebuildFrom(ns, i, acc) == IF i > Len(ns) THEN acc
                           ELSE RebuildFrom(ns, i + 1, MkNode(acc, ns[i][1], ns[i][2], ns[i][3]).S)
Rebuild(S) == RebuildFrom(S.nodes, 1, InitStore)

Init == O = InitStore /\ C = InitStore /\ has = FALSE /\ lastO = 0 /\ lastC = 0

Do(op, a, b, v, val) ==
  LET x == Apply(O, op, a, b, v, val) IN
  /\ O' = x.S /\ lastO' = x.r
  /\ IF has THEN LET y == Apply(C, op, a, b, v, val) IN C' = y.S /\ lastC' = y.r
            ELSE C' = C /\ lastC' = x.r
  /\ UNCHANGED has

\* the documented repair step on a LIVE store (a public call like any other): the dependency list is regenerated - as shipped
\* onto the end of the existing one; existing count-cache entries are kept (modelcount_memoization returns what is cached)
RepairLive(S) == [S EXCEPT !.deps = IF ~VariableList THEN @
                                    ELSE IF FixedRepair THEN RegenDeps(S.nodes, 1, <<>>)
                                    ELSE RegenDeps(S.nodes, 1, @)]
Repair == /\ O' = RepairLive(O) /\ C' = (IF has THEN RepairLive(C) ELSE C) /\ UNCHANGED <<has, lastO, lastC>>

Import == /\ C' = ImportFix(O) /\ has' = TRUE /\ lastC' = lastO /\ UNCHANGED <<O, lastO>>
Reb    == /\ C' = Rebuild(O)   /\ has' = TRUE /\ lastC' = lastO /\ UNCHANGED <<O, lastO>>

Next ==
  \/ \E v \in 0..(NV - 1) : Do("var", 0, 0, v, FALSE)
  \/ \E a \in Handles(O) : Do("not", a, 0, 0, FALSE)
  \/ \E a, b \in Handles(O), op \in {"and", "or", "imp", "iff", "xor"} : Do(op, a, b, 0, FALSE)
  \/ \E a \in Handles(O), v \in 0..(NV - 1), val \in BOOLEAN : Do("restrict", a, 0, v, val)
  \/ Import \/ Reb \/ Repair

Spec == Init /\ [][Next]_vars

\* identical node numbering, identical answers, and the copy's regenerated tables are exact
SameTables == has => /\ C.nodes = O.nodes /\ lastC = lastO /\ C.uniq = O.uniq
CopyOK == has => /\ UniqOK(C) /\ CachesOK(C, NV) /\ DepsOK(C, NV)
                 /\ (VariableList => C.deps = O.deps)
                 /\ (AdHocCounting => DOMAIN C.cnt = Handles(C) /\
                        \A h \in Handles(C) : SubSeq(C.cnt[h], 3, 5) = SubSeq(O.cnt[h], 3, 5))
\* the original stays a proper store whatever is called on it (the repair step included)
OrigOK == UniqOK(O) /\ CachesOK(O, NV) /\ DepsOK(O, NV)
\* Rebuild reproduces exactly the canonical tables (follows from Reduced /\ NoDup)
RebuildExact == Rebuild(O).nodes = O.nodes

View == << { Den(O, h, NV) : h \in Handles(O) }, has, Len(O.deps) = Size(O), has => (Len(C.deps) = Size(C)) >>
=============================================================================
