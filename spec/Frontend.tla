------------------------------ MODULE Frontend ------------------------------
(***************************************************************************)
(* The streaming mirror (feature "frontend", C19): a producer store sends  *)
(* every freshly created node over a channel; a relay store (sender and    *)
(* receiver) and a final receiver rebuild the table by polling.            *)
(*   Bdd::node        push, then send        -> ProdCreate                 *)
(*   Bdd::recv(term)  if term < len: true; else loop { try_recv: push,     *)
(*                    forward, stop when the pushed handle = term; Empty:  *)
(*                    false }                 -> PollBegin, then one       *)
(*                    PollTake per try_recv, so producer steps and the     *)
(*                    other poller's steps may fall INSIDE a poll.         *)
(* Node identities are abstract: the producer's i-th node is i.            *)
(***************************************************************************)
EXTENDS Naturals, Sequences, TLC

CONSTANT MaxNodes        \* number of nodes the producer creates

Consts == <<"BOT", "TOP">>

NoPoll == [active |-> FALSE, h |-> 0, res |-> "none"]

\* ---- pure step functions, shared with the trace validator
Begin(tableLen, h) == IF h < tableLen THEN [active |-> FALSE, h |-> h, res |-> "found"]
                                      ELSE [active |-> TRUE, h |-> h, res |-> "none"]
\* one try_recv of an active poll on (table, inbox): <<table', inbox', poll', forwarded message or <<>> >>
Take(table, inbox, poll) ==
  IF inbox = <<>> THEN << table, inbox, [poll EXCEPT !.active = FALSE, !.res = "notfound"], <<>> >>
  ELSE << Append(table, Head(inbox)), Tail(inbox),
          IF Len(table) = poll.h THEN [poll EXCEPT !.active = FALSE, !.res = "found"] ELSE poll,
          << Head(inbox) >> >>

VARIABLES prod, c1, relay, c2, recv, rpoll, lpoll

vars == <<prod, c1, relay, c2, recv, rpoll, lpoll>>

Init == /\ prod = Consts /\ c1 = <<>> /\ relay = Consts /\ c2 = <<>> /\ recv = Consts
        /\ rpoll = NoPoll /\ lpoll = NoPoll

ProdCreate == /\ Len(prod) < MaxNodes + 2
              /\ prod' = Append(prod, Len(prod) - 1)
              /\ c1' = Append(c1, Len(prod) - 1)
              /\ UNCHANGED <<relay, c2, recv, rpoll, lpoll>>

Handles == 0..(MaxNodes + 2)

RelayBegin(h) == /\ ~rpoll.active /\ rpoll' = Begin(Len(relay), h)
                 /\ UNCHANGED <<prod, c1, relay, c2, recv, lpoll>>
RelayTake == /\ rpoll.active
             /\ LET t == Take(relay, c1, rpoll) IN
                relay' = t[1] /\ c1' = t[2] /\ rpoll' = t[3] /\ c2' = c2 \o t[4]
             /\ UNCHANGED <<prod, recv, lpoll>>
RecvBegin(h) == /\ ~lpoll.active /\ lpoll' = Begin(Len(recv), h)
                /\ UNCHANGED <<prod, c1, relay, c2, recv, rpoll>>
RecvTake == /\ lpoll.active
            /\ LET t == Take(recv, c2, lpoll) IN
               recv' = t[1] /\ c2' = t[2] /\ lpoll' = t[3]
            /\ UNCHANGED <<prod, c1, relay, rpoll>>

Next == ProdCreate \/ (\E h \in Handles : RelayBegin(h) \/ RecvBegin(h)) \/ RelayTake \/ RecvTake
Spec == Init /\ [][Next]_vars

IsPrefix(a, b) == Len(a) <= Len(b) /\ SubSeq(b, 1, Len(a)) = a

\* a store that has consumed k messages holds exactly the producer's first k+2 nodes, in order
PrefixInv == /\ IsPrefix(relay, prod) /\ IsPrefix(recv, relay)
             /\ relay \o c1 = prod /\ recv \o c2 = relay
\* a finished poll answers found iff the handle is present afterwards
FoundRule == /\ (~rpoll.active /\ rpoll.res = "found")    => rpoll.h < Len(relay)
             /\ (~rpoll.active /\ rpoll.res = "notfound") => ~(rpoll.h < Len(relay))
             /\ (~lpoll.active /\ lpoll.res = "found")    => lpoll.h < Len(recv)
             /\ (~lpoll.active /\ lpoll.res = "notfound") => ~(lpoll.h < Len(recv))
\* producer done and channels drained: all three tables identical
Quiescent == (Len(prod) = MaxNodes + 2 /\ c1 = <<>> /\ c2 = <<>>) => (relay = prod /\ recv = prod)
\* tables only grow
Monotone == [][IsPrefix(relay, relay') /\ IsPrefix(recv, recv') /\ IsPrefix(prod, prod')]_vars
=============================================================================
