SPECIFICATION Spec
CONSTANTS Labels = {"b", "a", "c"}
          Orders <- MCOrders
          MaxFacts = 6
          CacheOrder = FALSE
INVARIANTS DictOK Faithful
CHECK_DEADLOCK FALSE
