SPECIFICATION Spec
CONSTANTS N = 3
          FunSet = "sample"
INVARIANTS Commutes
CHECK_DEADLOCK FALSE
