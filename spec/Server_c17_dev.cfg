SPECIFICATION Spec
CONSTANTS Principals = {"A", "A2", "B"}
          Accounts = {"alice", "carol"}
          PNames = {"P"}
          Codes = {"c1"}
          BadCodes = {}
          BoomCodes = {}
          Strategies = {}
          MaxReq = 8
          TempNames = {}
          GenPNames = {}
          FilterOnOwner = TRUE
          FixedF8 = TRUE
          Person <- DevPerson
CONSTRAINT DevBoundNarrow
INVARIANTS NoUnexplainedRead NoUnexplainedEffect NoUnexplainedResult NoUnexplainedLoss ResultsMatchCode EndedNotRunning
CHECK_DEADLOCK FALSE
