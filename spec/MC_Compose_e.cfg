SPECIFICATION Spec
CONSTANTS N = 3
  Blocks <- B_e
  Obs <- O_e
INVARIANT Lemma
CHECK_DEADLOCK FALSE
