---------------------------- MODULE AdfRobddOps ----------------------------
(***************************************************************************)
(* The semantics algorithms of lib/src/adf.rs transcribed ON THE STORE     *)
(* MODEL (RobddOps): every Bdd::restrict call threads the shared node      *)
(* table and its memo tables in the code's order, including the            *)
(* short-circuit of Iterator::all in the filter of Adf::complete.  They    *)
(* predict raw HANDLES, not only truth values.  Used by the session        *)
(* machine AdfRobdd (model checking) and by Trace_Bdd (stepping along the  *)
(* recorded call histories of a real Adf object).                          *)
(***************************************************************************)
EXTENDS RobddOps, Iterators

\* explicit tuples (TLC cannot spill lazily evaluated function values of states to disk)
RECURSIVE MkSeq(_, _, _)
MkSeq(f, i, n) == IF i > n THEN <<>> ELSE <<f[i]>> \o MkSeq(f, i + 1, n)

IsTVh(h) == h <= 1
TVh(h) == IF h = 1 THEN "T" ELSE IF h = 0 THEN "F" ELSE "U"
TVseq(I) == [i \in DOMAIN I |-> TVh(I[i])]

\* fold Bdd::restrict over the decided positions of interp (only = "all": every decided one, "false": only the false ones)
RECURSIVE RestrictFold(_, _, _, _, _)
RestrictFold(S, acc, interp, v, only) ==
  IF v > Len(interp) THEN R(S, acc)
  ELSE IF IsTVh(interp[v]) /\ (only = "all" \/ interp[v] = 0)
       THEN LET x == Restrict(S, acc, v - 1, interp[v] = 1) IN RestrictFold(x.S, x.r, interp, v + 1, only)
       ELSE RestrictFold(S, acc, interp, v + 1, only)

\* Adf::grounded_internal: one Jacobi round over the positions in order, on the snapshot of the previous round
RECURSIVE GroundRoundR(_, _, _, _)
GroundRoundR(S, snap, new, i) ==
  IF i > Len(snap) THEN R(S, new)
  ELSE IF IsTVh(new[i]) THEN GroundRoundR(S, snap, new, i + 1)
       ELSE LET x == RestrictFold(S, new[i], snap, 1, "all") IN
            GroundRoundR(x.S, snap, [new EXCEPT ![i] = x.r], i + 1)

RECURSIVE GroundedInternalR(_, _)
GroundedInternalR(S, I) ==
  LET x == GroundRoundR(S, I, I, 1)
      cnt(J) == Cardinality({ i \in DOMAIN J : IsTVh(J[i]) }) IN
  IF cnt(x.r) = cnt(I) THEN x ELSE GroundedInternalR(x.S, x.r)

\* the filter of Adf::complete for one candidate: Iterator::all stops at the first failing position
RECURSIVE CompleteFilterR(_, _, _, _)
CompleteFilterR(S, ac, cand, i) ==
  IF i > Len(ac) THEN R(S, TRUE)
  ELSE LET x == RestrictFold(S, ac[i], cand, 1, "all") IN
       IF TVh(cand[i]) = TVh(x.r) THEN CompleteFilterR(x.S, ac, cand, i + 1) ELSE R(x.S, FALSE)

\* candidates of the three-valued odometer keep the residual HANDLE at undecided positions
CandHandles(grd, pattern) == MkSeq([i \in DOMAIN grd |-> IF pattern[i] = "T" THEN 1 ELSE IF pattern[i] = "F" THEN 0 ELSE grd[i]], 1, Len(grd))

RECURSIVE CompleteLoop(_, _, _, _, _, _)
CompleteLoop(S, ac, grd, pats, k, acc) ==
  IF k > Len(pats) THEN R(S, acc)
  ELSE LET cand == CandHandles(grd, pats[k])
           x == CompleteFilterR(S, ac, cand, 1) IN
       CompleteLoop(x.S, ac, grd, pats, k + 1, IF x.r THEN Append(acc, cand) ELSE acc)

CompleteR(S, ac) ==
  LET g == GroundedInternalR(S, ac) IN
  CompleteLoop(g.S, ac, g.r, Seq3(TVseq(g.r)), 1, <<>>)

\* Adf::stable: reduct by the false statements, grounded_internal of it, compare information on all positions
RECURSIVE ReductR(_, _, _, _, _)
ReductR(S, ac, cand, i, acc) ==
  IF i > Len(ac) THEN R(S, acc)
  ELSE LET x == RestrictFold(S, ac[i], cand, 1, "false") IN ReductR(x.S, ac, cand, i + 1, Append(acc, x.r))

RECURSIVE StableLoop(_, _, _, _, _)
StableLoop(S, ac, pats, k, acc) ==
  IF k > Len(pats) THEN R(S, acc)
  ELSE LET cand == MkSeq([i \in DOMAIN ac |-> IF pats[k][i] = "T" THEN 1 ELSE 0], 1, Len(ac))
           red == ReductR(S, ac, cand, 1, <<>>)
           g == GroundedInternalR(red.S, red.r) IN
       StableLoop(g.S, ac, pats, k + 1, IF TVseq(g.r) = TVseq(cand) THEN Append(acc, cand) ELSE acc)

StableR(S, ac) ==
  LET g == GroundedInternalR(S, ac) IN
  StableLoop(g.S, ac, Seq2(TVseq(g.r)), 1, <<>>)

\* Adf::stable_with_prefilter: a two-valued candidate must first pass the filter of complete (it is a model), only then is its
\* reduct grounded; candidates that fail the filter cost the restrict calls up to the first failing position and nothing else
RECURSIVE PrefilterLoop(_, _, _, _, _)
PrefilterLoop(S, ac, pats, k, acc) ==
  IF k > Len(pats) THEN R(S, acc)
  ELSE LET cand == MkSeq([i \in DOMAIN ac |-> IF pats[k][i] = "T" THEN 1 ELSE 0], 1, Len(ac))
           f == CompleteFilterR(S, ac, cand, 1) IN
       IF ~f.r THEN PrefilterLoop(f.S, ac, pats, k + 1, acc)
       ELSE LET red == ReductR(f.S, ac, cand, 1, <<>>)
                g == GroundedInternalR(red.S, red.r) IN
            PrefilterLoop(g.S, ac, pats, k + 1, IF TVseq(g.r) = TVseq(cand) THEN Append(acc, cand) ELSE acc)

PrefilterR(S, ac) ==
  LET g == GroundedInternalR(S, ac) IN
  PrefilterLoop(g.S, ac, Seq2(TVseq(g.r)), 1, <<>>)

=============================================================================
