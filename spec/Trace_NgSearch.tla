---------------------------- MODULE Trace_NgSearch ----------------------------
(***************************************************************************)
(* Step-level conformance of NgSearch with the real nogood_internal: the   *)
(* search tracer (hook H3) logs the loop-carried state at the head of      *)
(* every iteration; here every logged state must be reached by ONE         *)
(* NgSearch!Iterate step from the previous one, for some heuristic pick    *)
(* (TLC infers the pick).  A run that cannot be matched is skipped         *)
(* (Resync) and its id collected in the ghost variable drifted; the driver *)
(* reads the smallest such set over all completed validations.  Drift is   *)
(* reported in the evidence, never an alarm.                               *)
(***************************************************************************)
EXTENDS NgSearch, Json, IOUtils

Rec == ndJsonDeserialize(IOEnv.TRACE)

VARIABLES l, drifted, runid, heu

tvars == <<vars, l, drifted, runid, heu>>

Matches(ev) == /\ ToInterp(cur', N) = ev.cur /\ backtrack' = ev.bt /\ choice' = ev.ch
               /\ Len(stack') = ev.stack /\ Len(hist') = ev.hist

StartFrom(ev) ==
  /\ adf' = TTs(ev.asts, N)
  /\ cur' = GroundedInternal(TTs(ev.asts, N), N)
  /\ stack' = <<>> /\ hist' = <<>> /\ store' = NG!EmptyStore
  /\ backtrack' = FALSE /\ choice' = FALSE /\ out' = <<>> /\ done' = FALSE /\ steps' = 0 /\ last' = "start"
  /\ runid' = ev.id /\ heu' = ev.heu

\* index of the next "start" record after position i (Len + 1 if none)
RECURSIVE NextStart(_)
NextStart(i) == IF i > Len(Rec) THEN i ELSE IF Rec[i].kind = "start" THEN i ELSE NextStart(i + 1)

\* the pick of the iteration that leads to record i: logged for scripted heuristics, COMPUTED by the transcription for built-in ones
PickFor(i) == IF heu = "Custom" \/ ~choice THEN <<Rec[i - 1].pick[1], Rec[i - 1].pick[2]>> ELSE HeuPick(heu, cur)

TraceInit == /\ Rec[1].kind = "start" /\ l = 2 /\ drifted = {} /\ runid = Rec[1].id /\ heu = Rec[1].heu
             /\ adf = TTs(Rec[1].asts, N) /\ cur = GroundedInternal(TTs(Rec[1].asts, N), N)
             /\ stack = <<>> /\ hist = <<>> /\ store = NG!EmptyStore
             /\ backtrack = FALSE /\ choice = FALSE /\ out = <<>> /\ done = FALSE /\ steps = 0 /\ last = "start"

Consume ==
  /\ l <= Len(Rec)
  /\ LET ev == Rec[l] IN
     CASE ev.kind = "start" -> StartFrom(ev) /\ l' = l + 1 /\ UNCHANGED drifted
       [] ev.kind = "iter" /\ Rec[l - 1].kind = "start" ->
            \* the first observation of a run is the initial state itself
            /\ ToInterp(cur, N) = ev.cur /\ backtrack = ev.bt /\ choice = ev.ch /\ ev.stack = 0 /\ ev.hist = 0
            /\ UNCHANGED <<vars, drifted, runid, heu>> /\ l' = l + 1
       [] ev.kind = "iter" ->
            /\ ~done /\ steps' = steps + 1
            /\ PickFor(l) \in Picks                \* the pick honours the contract
            /\ Iterate(PickFor(l))
            /\ done' = FALSE /\ Matches(ev)
            /\ l' = l + 1 /\ UNCHANGED <<drifted, runid, heu>>
       [] ev.kind = "done" ->
            /\ ~done /\ steps' = steps + 1
            /\ Iterate(PickFor(l))
            /\ done' = TRUE /\ out' = ev.out
            /\ l' = l + 1 /\ UNCHANGED <<drifted, runid, heu>>
       [] OTHER -> FALSE

\* give up on the current run: jump to the next start (always possible; costs one entry in drifted)
Resync == /\ l <= Len(Rec) /\ Rec[l].kind # "start"
          /\ ~ENABLED Consume                      \* only when the observation cannot be matched
          /\ l' = NextStart(l) /\ drifted' = drifted \cup {runid}
          /\ UNCHANGED <<vars, runid, heu>>

TraceNext == Consume \/ Resync
TraceSpec == TraceInit /\ [][TraceNext]_tvars

\* printed at every end state; the driver takes the smallest set
AtEnd == (l = Len(Rec) + 1) => PrintT(<<"END", Cardinality(drifted), drifted>>)
=============================================================================
