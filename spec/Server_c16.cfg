SPECIFICATION Spec
CONSTANTS Principals = {"A"}
          Accounts = {"alice"}
          PNames = {"P"}
          Codes = {"c1", "c2"}
          BadCodes = {"bad"}
          BoomCodes = {"boom"}
          Strategies = {"S1", "S2"}
          MaxReq = 7
          TempNames = {}
          GenPNames = {}
          FilterOnOwner = TRUE
          FixedF8 = TRUE
          Person <- IdPerson
INVARIANTS NoUnexplainedRead NoUnexplainedEffect NoUnexplainedResult NoUnexplainedLoss ResultsMatchCode ErrorNotEmpty EndedNotRunning
CHECK_DEADLOCK FALSE
