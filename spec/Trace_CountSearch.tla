--------------------------- MODULE Trace_CountSearch ---------------------------
(***************************************************************************)
(* Step-level conformance of CountSearch with the real                     *)
(* two_val_model_counts_logic (drift only): through hook H3b every entry   *)
(* of the recursion is recorded as (interpretation, will_be, depth); the   *)
(* transcription must produce the same entries in the same pre-order -     *)
(* which pins the branching heuristics a and b (impact measures, path      *)
(* counts, first minimum), the cube order of Bdd::interpretations, the     *)
(* per-cube consistency test, the single propagation step and the          *)
(* "conclude the other value" branch.                                      *)
(***************************************************************************)
EXTENDS CountSearch, Json, IOUtils

Rec == ndJsonDeserialize(IOEnv.TRACE)
VARIABLE l
tvars == <<vars, l>>

Same(r) == LET tt == TTs(r.asts, N)
               m == VisitsFromStart(r.heu, tt) IN
           /\ Len(m) = Len(r.visits)
           /\ \A i \in DOMAIN m : m[i][1] = r.visits[i][1] /\ m[i][2] = r.visits[i][2] /\ m[i][3] = r.visits[i][3]

TraceInit == l = 1 /\ adf = <<>> /\ heu = "a" /\ out = <<>> /\ phase = "trace"
TraceNext == /\ l <= Len(Rec)
             /\ ((Same(Rec[l]) /\ PrintT(<<"SAME", l, Rec[l].id>>)) \/ PrintT(<<"DRIFT", l, Rec[l].id, "recursion-entries">>)) \in BOOLEAN
             /\ l' = l + 1 /\ UNCHANGED vars
TraceSpec == TraceInit /\ [][TraceNext]_tvars
Consumed == (TLCGet("stats").diameter - 1 = Len(Rec))
              \/ PrintT(<<"NOTCONSUMED", TLCGet("stats").diameter, Len(Rec)>>)
=============================================================================
