------------------------------ MODULE CliFsOps ------------------------------
(***************************************************************************)
(* One CLI invocation as a function on the directory (see CliFs): shared   *)
(* by the session machine CliFs and by the trace validator Trace_Cli.      *)
(***************************************************************************)
\* fs: function from the names that exist to contents; run = [src, imp, exp] (exp = "" for none)
Readable(fs, run) == /\ run.src \in DOMAIN fs
                     /\ fs[run.src][1] = (IF run.imp THEN "export" ELSE "adf")
AdfOf(fs, run) == fs[run.src][2]
FsAfter(fs, run) ==
  IF Readable(fs, run) /\ run.exp # "" /\ run.exp \notin DOMAIN fs
  THEN [n \in DOMAIN fs \cup {run.exp} |-> IF n = run.exp THEN <<"export", AdfOf(fs, run)>> ELSE fs[n]]
  ELSE fs

=============================================================================
