----------------------------- MODULE ParserState -----------------------------
(***************************************************************************)
(* The STATE of lib/src/parser.rs (AdfParser) between the grammar and the  *)
(* diagrams: the name list, the dictionary name -> index, the conditions   *)
(* in the order of the ac facts and their head labels - and what the two   *)
(* sorts and the consumers make of it.                                     *)
(*   s(l).      AddS : a new label is appended and entered in the          *)
(*                     dictionary, a repeated one is ignored               *)
(*   ac(l,f).   AddAc: condition and head label are appended               *)
(*   varsort_*  Sort : the name list is reordered, the dictionary is       *)
(*                     regenerated from it (regenerate_indizes)            *)
(*   formula_order   : head label of the i-th ac fact -> its index         *)
(*   from_parser     : ac[formula_order[i]] = compile(i-th condition)      *)
(*   stm_rewriting   : statement Var(formula_order[i]) <-> i-th condition  *)
(* Conditions are abstract: the i-th ac fact has condition i.              *)
(* Checked: the dictionary is the inverse of the name list at all times;   *)
(* whatever is built AFTER any sequence of facts and sorts gives every     *)
(* statement the condition written for its own label - also when an ADF    *)
(* was already built before a sort (the parser object is reused).  With    *)
(* CacheOrder = TRUE formula_order is memoised and survives a sort: the    *)
(* defect class several seeded changes hit; expected to FAIL.              *)
(***************************************************************************)
EXTENDS ParserOps, Naturals, Sequences, FiniteSets, TLC

CONSTANTS Labels,        \* e.g. {"b", "a", "c"}
          Orders,        \* the total orders a sort may establish: a set of sequences over Labels (each a permutation)
          MaxFacts,
          CacheOrder     \* FALSE: formula_order is computed on demand (as shipped); TRUE: memoised, not invalidated by a sort

MCOrders == { <<"a", "b", "c">>, <<"c", "a", "b">> }     \* cfg: Orders <- MCOrders (a configuration file cannot hold tuples)

VARIABLES names, dict, fname, memo, hasMemo, built, fresh, nfacts
vars == <<names, dict, fname, memo, hasMemo, built, fresh, nfacts>>

Init == names = <<>> /\ dict = [l \in {} |-> 0] /\ fname = <<>> /\ memo = <<>> /\ hasMemo = FALSE /\ built = <<>> /\ fresh = FALSE /\ nfacts = 0

AddS(l) == /\ nfacts < MaxFacts /\ nfacts' = nfacts + 1
           /\ names' = AddName(names, l) /\ dict' = DictOf(names')
           /\ fresh' = FALSE /\ UNCHANGED <<fname, memo, hasMemo, built>>
AddAc(l) == /\ nfacts < MaxFacts /\ nfacts' = nfacts + 1
            /\ fname' = Append(fname, l)
            /\ memo' = <<>> /\ hasMemo' = FALSE            \* the memo (if any) is dropped when a condition is added
            /\ fresh' = FALSE /\ UNCHANGED <<names, dict, built>>
Sort(order) == /\ names' = SortBy(names, order) /\ dict' = DictOf(names')
               /\ fresh' = FALSE /\ UNCHANGED <<fname, memo, hasMemo, built, nfacts>>  \* ... but NOT when the indices are regenerated

WellFormed == /\ RangeOf(fname) \subseteq RangeOf(names)
              /\ \A l \in RangeOf(names) : Cardinality({ i \in DOMAIN fname : fname[i] = l }) = 1
FormulaOrderNow == [i \in DOMAIN fname |-> dict[fname[i]]]
\* building an ADF: position p (0-based) receives the condition of the ac fact that formula_order sends there
Build == /\ WellFormed
         /\ LET fo == IF CacheOrder /\ hasMemo THEN memo ELSE FormulaOrderNow IN
            /\ memo' = (IF CacheOrder THEN fo ELSE memo) /\ hasMemo' = CacheOrder
            /\ built' = [p \in 0..(Len(names) - 1) |-> CHOOSE i \in DOMAIN fo : fo[i] = p]
         /\ fresh' = TRUE /\ UNCHANGED <<names, dict, fname, nfacts>>

Next == (\E l \in Labels : AddS(l) \/ AddAc(l)) \/ (\E o \in Orders : Sort(o)) \/ Build
Spec == Init /\ [][Next]_vars

\* the dictionary is the inverse of the name list
DictOK == /\ DOMAIN dict = RangeOf(names)
          /\ \A i \in DOMAIN names : dict[names[i]] = i - 1
          /\ Cardinality(RangeOf(names)) = Len(names)
\* what has just been built (fresh: nothing happened since) gives every statement the condition written for its own label
Faithful == fresh => \A p \in 0..(Len(names) - 1) : fname[built[p]] = names[p + 1]
=============================================================================
