SPECIFICATION Spec
CONSTANTS NV = 2
          VariableList = TRUE
          AdHocCounting = TRUE
          AdHocModels = FALSE
          FixedRepair = FALSE
INVARIANTS SameTables CopyOK RebuildExact OrigOK
VIEW View
CHECK_DEADLOCK FALSE
