------------------------------ MODULE MC_Syntax ------------------------------
(***************************************************************************)
(* The two halves of AdfSyntax agree: rendering an AST in the documented   *)
(* format and recognising the rendered text give the AST back, for every   *)
(* formula up to depth 2 over two labels (one of them keyword-like) and    *)
(* every layout; single-token damage (a bracket, the terminator, an        *)
(* argument dropped; garbage appended) always leaves the grammar - even    *)
(* the lenient one.  States = (formula, layout) pairs.                     *)
(***************************************************************************)
EXTENDS AdfSyntax, TLC

L1 == <<97, 110, 100>>       \* the keyword-like label  and
L2 == <<120, 32, 40>>        \* the quoted label  "x ("

Atoms == { <<"top">>, <<"bot">>, <<"atom", L1>>, <<"atom", L2>> }
Ops == {"and", "or", "imp", "iff", "xor"}
D1 == Atoms \cup { <<"not", a>> : a \in Atoms } \cup { <<o, a, b>> : o \in Ops, a \in Atoms, b \in Atoms }
D2 == D1 \cup { <<"not", a>> : a \in D1 } \cup { <<o, a, b>> : o \in Ops, a \in D1, b \in Atoms }
                \cup { <<o, a, b>> : o \in Ops, a \in Atoms, b \in D1 }

OpTag(o) == CASE o = "and" -> T_and [] o = "or" -> T_or [] o = "imp" -> T_imp [] o = "iff" -> T_iff [] o = "xor" -> T_xor

RenderLabel(lb) == IF \A i \in DOMAIN lb : IsAlnum(lb[i]) THEN lb ELSE <<QUOTE>> \o lb \o <<QUOTE>>

RECURSIVE Render(_, _)
Render(f, sep) ==        \* sep = the code points placed at every comma (blanks around it allowed)
  CASE f[1] = "top" -> T_cv
    [] f[1] = "bot" -> T_cf
    [] f[1] = "atom" -> RenderLabel(f[2])
    [] f[1] = "not" -> T_neg \o <<LP>> \o Render(f[2], sep) \o <<RP>>
    [] OTHER -> OpTag(f[1]) \o <<LP>> \o Render(f[2], sep) \o sep \o Render(f[3], sep) \o <<RP>>

Seps == { <<COMMA>>, <<32, COMMA>>, <<COMMA, 32>>, <<32, COMMA, 10>> }
Ends == { <<>>, <<32>>, <<10>> }

File(f, sep, end) == T_s \o <<LP>> \o RenderLabel(L1) \o <<RP, DOT>> \o end
                     \o T_s \o <<LP>> \o RenderLabel(L2) \o <<RP, DOT>> \o end
                     \o T_ac \o <<LP>> \o RenderLabel(L1) \o sep \o Render(f, sep) \o <<RP, DOT>> \o end
                     \o T_ac \o <<LP>> \o RenderLabel(L2) \o sep \o RenderLabel(L1) \o <<RP, DOT>> \o end

CONSTANT Deep          \* TRUE: all formulas to depth 2; FALSE: depth 1 plus the depth-2 formulas over and / iff

Pool == IF Deep THEN D2 ELSE D1 \cup { g \in D2 : g[1] \in {"and", "iff", "not"} }

VARIABLES f, sep, end, phase
vars == <<f, sep, end, phase>>
\* few initial states (one per layout); the formulas are enumerated as successors so that all workers take part
Init == f = <<"top">> /\ sep \in Seps /\ end \in Ends /\ phase = 0
Next == phase = 0 /\ f' \in Pool /\ phase' = 1 /\ UNCHANGED <<sep, end>>
Spec == Init /\ [][Next]_vars

Text == File(f, sep, end)
Expected == << <<"s", L1>>, <<"s", L2>>, <<"ac", L1, f>>, <<"ac", L2, <<"atom", L1>> >> >>

RoundTrip == LET p == Parse(Text) IN p.ok /\ p.facts = Expected
LenientAgrees == LET p == ParseLenient(Text) IN p.ok /\ p.facts = Expected

\* positions of structural characters outside quotes (labels here contain no quotes except the delimiters)
Drop(s, i) == SubSeq(s, 1, i - 1) \o SubSeq(s, i + 1, Len(s))
InQuote(s, i) == Cardinality({ j \in 1..(i - 1) : s[j] = QUOTE }) % 2 = 1
Structural(s) == { i \in DOMAIN s : s[i] \in {LP, RP, DOT} /\ ~InQuote(s, i) }
\* deleting any bracket or terminator, or appending non-blank garbage, leaves even the lenient grammar
DamageRejected ==
  /\ \A i \in Structural(Text) : ~ParseLenient(Drop(Text, i)).ok
  /\ ~ParseLenient(Text \o <<120>>).ok /\ ~ParseLenient(Text \o <<RP>>).ok /\ ~ParseLenient(Text \o T_s \o <<LP>> \o L1).ok
=============================================================================
