SPECIFICATION Spec
CONSTANTS VariableList = FALSE
          AdHocCounting = TRUE
          AdHocModels = FALSE
POSTCONDITION Consumed
CHECK_DEADLOCK FALSE
