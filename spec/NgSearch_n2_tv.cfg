SPECIFICATION Spec
CONSTANTS N = 2
          AdfSetKind = "all"
          TwoValMode = TRUE
          Contract = TRUE
          FixedFoldC = TRUE
INVARIANTS Exact Safe LockStep Bounded StoreSound
VIEW View
CHECK_DEADLOCK FALSE
