----------------------------- MODULE Trace_Compile -----------------------------
(***************************************************************************)
(* Trace validator for compilation (C09).  For each compiled ADF the ASTs  *)
(* (atoms = reported variable positions), the root handle of every         *)
(* statement and the COMPLETE node table are logged.  TLC walks the logged *)
(* table, statement by statement, for every assignment of the statement's  *)
(* own support in several contexts for the other variables, and compares   *)
(* with the evaluation of the written formula - for the pre-grounded       *)
(* import with the grounded truth values substituted, the grounded         *)
(* interpretation being computed by TLC with support-local validity tests  *)
(* (so ADFs with dozens of statements are decidable).                      *)
(***************************************************************************)
EXTENDS AdfSem, Json, IOUtils, TLC

Rec == ndJsonDeserialize(IOEnv.TRACE)
VARIABLE l

VarBOT == 1000000
RangeOf(sq) == { sq[i] : i \in DOMAIN sq }

RECURSIVE AtomsIdx(_)
AtomsIdx(f) == CASE f[1] \in {"top", "bot"} -> {}
                 [] f[1] = "atom" -> {f[2]}
                 [] f[1] = "not" -> AtomsIdx(f[2])
                 [] OTHER -> AtomsIdx(f[2]) \cup AtomsIdx(f[3])

\* walk the logged table; variable index v is position v + 1
RECURSIVE WalkP(_, _, _)
WalkP(ns, h, A) == IF h = 1 THEN TRUE ELSE IF h = 0 THEN FALSE
                   ELSE LET n == ns[h + 1] IN WalkP(ns, IF (n[1] + 1) \in A THEN n[3] ELSE n[2], A)

\* truth table of a formula over its own support
TTsup(f) == { X \in SUBSET AtomsIdx(f) : Eval(f, X) }

\* support-local three-valued consequence and its least fixpoint
Val3S(sup, tt, v) == LET T == { x \in sup : v[x] = "T" }  U == { x \in sup : v[x] = "U" } IN
                     IF \A X \in SUBSET U : (T \cup X) \in tt THEN "T"
                     ELSE IF \A X \in SUBSET U : (T \cup X) \notin tt THEN "F" ELSE "U"
RECURSIVE LfpS(_, _, _, _)
LfpS(sups, tts, v, n) == LET w == [s \in 1..n |-> Val3S(sups[s], tts[s], v)] IN
                         IF w = v THEN v ELSE LfpS(sups, tts, w, n)

\* shape of the table (C06 on large tables; canonicity by brute force is out of reach there)
ShapeOK(ns, n) ==
  /\ Len(ns) >= 2
  /\ \A h \in 2..(Len(ns) - 1) :
       LET x == ns[h + 1] IN
       /\ x[2] # x[3] /\ x[1] \in 0..(n - 1) /\ x[2] < h /\ x[3] < h
       /\ (x[2] > 1 => ns[x[2] + 1][1] > x[1]) /\ (x[3] > 1 => ns[x[3] + 1][1] > x[1])
  /\ Cardinality(RangeOf(ns)) = Len(ns)

Report(ok, id, what, s) == ok \/ PrintT(<<"MISMATCH", l, id, "C09", what, s>>)

Check(r) ==
  /\ Report(r.st = "ok", r.id, "compile-status", 0)
  /\ r.st = "ok" =>
     LET n == r.n
         sups == [s \in 1..n |-> AtomsIdx(r.asts[s])]
         tts  == [s \in 1..n |-> TTsup(r.asts[s])]
         G    == IF r.path = "hybrid" THEN LfpS(sups, tts, [s \in 1..n |-> "U"], n) ELSE [s \in 1..n |-> "U"]
         TG   == { s \in 1..n : G[s] = "T" }
         DG   == { s \in 1..n : G[s] # "U" }
         ctxs == IF n <= 5 THEN { {} } ELSE RangeOf([i \in DOMAIN r.contexts |-> RangeOf(r.contexts[i])])
     IN
     /\ Report(Len(r.ac) = n /\ \A s \in 1..n : r.ac[s] \in 0..(Len(r.nodes) - 1), r.id, "roots", 0)
     /\ Report(ShapeOK(r.nodes, n), r.id, "table-shape", 0)
     /\ \A s \in 1..n :
          LET sup == sups[s]
              \* for small ADFs every assignment of all variables, otherwise every assignment of the support in each context
              free == IF n <= 5 THEN 1..n ELSE sup
          IN Report(\A c \in ctxs : \A X \in SUBSET free :
                       LET A == (c \ free) \cup X IN
                       WalkP(r.nodes, r.ac[s], A) = ((((A \ DG) \cup TG) \cap sup) \in tts[s]),
                    r.id, "diagram-differs-from-written-condition", s)
     /\ PrintT(<<"INFO", l, r.id, n, Cardinality(DG), r.path>>)

Init == l = 1
Next == /\ l <= Len(Rec) /\ Check(Rec[l]) \in BOOLEAN /\ l' = l + 1
Spec == Init /\ [][Next]_l
Consumed == (TLCGet("stats").diameter - 1 = Len(Rec))
              \/ PrintT(<<"NOTCONSUMED", TLCGet("stats").diameter, Len(Rec)>>)
=============================================================================
