----------------------------- MODULE Trace_Server -----------------------------
(***************************************************************************)
(* Trace validator for the real web service (C16, C17): requests and       *)
(* responses of up to three principals (one cookie jar each), the database *)
(* commands recorded by the wire stub, and the database contents after     *)
(* every step.                                                             *)
(*                                                                         *)
(* C16 (content): for every problem shown in a response or found in the    *)
(* database, TLC parses the stored CODE with its own recogniser, computes  *)
(* the definitional answers and compares them with the stored models;      *)
(* every graph is walked (GraphOK); unparseable code must be an Error and  *)
(* solving it refused; a stored result excludes the task from              *)
(* running_tasks; at quiescence nothing accepted is still pending.         *)
(* C17 (isolation): a response to principal p contains only problems whose *)
(* code p submitted (statement labels carry the submitter); changes        *)
(* between consecutive database snapshots touch only documents of the      *)
(* acting principals; anonymous requests get 401; login succeeds iff the   *)
(* password is the one last set; credentials are salted hashes.            *)
(* Scenarios marked as races replay the listed known findings with the     *)
(* stub as scheduler; their expected predicate failures carry the race tag.*)
(***************************************************************************)
EXTENDS AdfCompose, AdfSyntax, ServerShapes, Integers, Json, IOUtils, TLC

Rec == ndJsonDeserialize(IOEnv.TRACE)

VARIABLES l, codes, lastpw, prevprobs, actors, race, quiet, asked, granted, acct, acctSolves

vars == <<l, codes, lastpw, prevprobs, actors, race, quiet, asked, granted, acct, acctSolves>>

RangeOf(sq) == { sq[i] : i \in DOMAIN sq }
Report(ok, id, prop, what) == ok \/ PrintT(<<"MISMATCH", l, id, prop, what, race>>)

\* ------------------------------------------------------------------ semantics of a stored code
RECURSIVE ToIdx(_, _)
ToIdx(f, names) ==
  CASE f[1] \in {"top", "bot"} -> f
    [] f[1] = "atom" -> <<"atom", CHOOSE i \in DOMAIN names : names[i] = f[2]>>
    [] f[1] = "not" -> <<"not", ToIdx(f[2], names)>>
    [] OTHER -> <<f[1], ToIdx(f[2], names), ToIdx(f[3], names)>>

WellFormedFacts(facts) ==
  LET ns == RangeOf(Names(facts))  acs == Acs(facts) IN
  /\ \A i \in DOMAIN acs : acs[i][2] \in ns /\ AtomsOf(acs[i][3]) \subseteq ns
  /\ \A n \in ns : Cardinality({ i \in DOMAIN acs : acs[i][2] = n }) = 1

TVv(vec) == [j \in DOMAIN vec |-> IF vec[j] = 1 THEN "T" ELSE IF vec[j] = 0 THEN "F" ELSE "U"]

\* ------------------------------------------------------------------ GraphOK
LabelOf(g, id) == LET e == CHOOSE x \in RangeOf(g.labels) : x[1] = id IN e[2]
Succ(g, id, hi) == LET es == RangeOf(IF hi THEN g.hi ELSE g.lo)
                       e == CHOOSE x \in es : x[1] = id IN e[2]
IsLeaf(g, id) == ~(\E x \in RangeOf(g.lo) : x[1] = id)
TOPcp == <<84, 79, 80>>
BOTcp == <<66, 79, 84>>
NodeIds(g) == { x[1] : x \in RangeOf(g.labels) }

RECURSIVE Reach(_, _, _)
Reach(g, frontier, seen) ==
  IF frontier = {} THEN seen
  ELSE LET nxt == { e[2] : e \in { x \in RangeOf(g.lo) \cup RangeOf(g.hi) : x[1] \in frontier } } \ (seen \cup frontier)
       IN Reach(g, nxt, seen \cup frontier)

RECURSIVE WalkG(_, _, _, _)
WalkG(g, id, A, fuel) ==           \* A = set of statement labels that are true
  IF fuel = 0 THEN "loop"
  ELSE IF IsLeaf(g, id) THEN (IF LabelOf(g, id) = TOPcp THEN "T" ELSE IF LabelOf(g, id) = BOTcp THEN "F" ELSE "badleaf")
  ELSE WalkG(g, Succ(g, id, LabelOf(g, id) \in A), A, fuel - 1)

\* well-formed picture: every edge source/target is a node, every inner node has exactly one lo and one hi edge
GraphShape(g) ==
  LET N == NodeIds(g) IN
  /\ \A x \in RangeOf(g.lo) \cup RangeOf(g.hi) : x[1] \in N /\ x[2] \in N
  /\ \A id \in N : Cardinality({ x \in RangeOf(g.lo) : x[1] = id }) = Cardinality({ x \in RangeOf(g.hi) : x[1] = id })
                   /\ Cardinality({ x \in RangeOf(g.lo) : x[1] = id }) <= 1
  /\ { x[1] : x \in RangeOf(g.roots) } = N

\* g = one AcAndGraph; v = the shown model as T/F/U over the statements (all U for the parse result)
GraphOK(g, names, asts, v) ==
  LET n == Len(names)
      N == NodeIds(g)
      named == RangeOf(names)
      Ext == { A \in SUBSET named : \A i \in 1..n : (v[i] = "T" => names[i] \in A) /\ (v[i] = "F" => names[i] \notin A) }
  IN
  /\ GraphShape(g)
  /\ Len(g.ac) = n /\ RangeOf(g.ac) \subseteq N
  \* exactly the nodes reachable from the roots
  /\ Reach(g, RangeOf(g.ac), {}) = N
  \* labels are statement names (or the two constants)
  /\ \A id \in N : LabelOf(g, id) \in named \cup {TOPcp, BOTcp}
  \* the node labelled as root for s is the handle stored for s
  /\ \A i \in 1..n : \E x \in RangeOf(g.roots) : x[1] = g.ac[i] /\ names[i] \in RangeOf(x[2])
  /\ \A x \in RangeOf(g.roots) : \A lb \in RangeOf(x[2]) : \E i \in 1..n : names[i] = lb /\ g.ac[i] = x[1]
  \* following lo/hi edges from the root of s evaluates the acceptance condition of s (restricted by the shown model)
  /\ \A i \in 1..n : \A A \in Ext :
       WalkG(g, g.ac[i], A, Cardinality(N) + 1) = (IF EvalL(asts[i], A) THEN "T" ELSE "F")

\* ------------------------------------------------------------------ one stored / shown problem
\* settled: TRUE when no accepted task is still pending (then "None" is not an acceptable parse state)
CheckProblemSmall(p, id, where, settled) ==
  LET strict == Parse(p.code_cp)
      good == strict.ok /\ WellFormedFacts(strict.facts)
      names == Names(strict.facts)
      acs == Acs(strict.facts)
      byPos == [i \in DOMAIN names |-> (acs[CHOOSE k \in DOMAIN acs : acs[k][2] = names[i]])[3]]
      n == Len(names)
      tt == TTs([i \in DOMAIN names |-> ToIdx(byPos[i], names)], n)
      G  == Grounded(tt, n)
      TW == TwoValDirect(tt, n)
      ST == { v \in TW : IsStable(tt, v, n) }
      CO == Complete(tt, n)
      parse == p.per[1]
      definitelyBad == ~ParseLenient(p.code_cp).ok \/ (strict.ok /\ ~WellFormedFacts(strict.facts))
  IN
  /\ \A k \in DOMAIN p.per :
       LET e == p.per[k] IN
       \* a task whose result (or error) is stored is not reported as still running
       /\ (where = "http" /\ e.type # "None") => Report(e.strategy \notin RangeOf(p.running), id, "C16", <<"ended-task-still-running", e.strategy>>)
       /\ (e.type = "Some" /\ good) =>
            LET ms == [j \in DOMAIN e.models |-> TVv(e.models[j].ac)] IN
            /\ Report(CASE e.strategy = "Parse" -> Len(ms) = 1
                        [] e.strategy = "Ground" -> ms = <<G>>
                        [] e.strategy = "Complete" -> ExactlyOnce(ms, CO) /\ ms[1] = G
                        [] OTHER -> ExactlyOnce(ms, ST),
                      id, "C16", <<"stored-models-differ-from-definition-for-code", e.strategy>>)
            /\ Report(\A j \in DOMAIN e.models :
                        GraphOK(e.models[j], names, byPos, IF e.strategy = "Parse" THEN [i \in 1..n |-> "U"] ELSE ms[j]),
                      id, "C16", <<"graph-not-faithful", e.strategy>>)
       \* results for code that cannot be parsed / compiled cannot exist
       /\ (e.type = "Some" /\ ~good) => Report(FALSE, id, "C16", <<"answer-for-unparseable-code", e.strategy>>)
  /\ definitelyBad => Report(parse.type # "Some" /\ (settled => parse.type = "Error"), id, "C16", "unparseable-code-not-reported-as-error")
  /\ (good /\ settled) => Report(parse.type = "Some", id, "C16", "parse-result-never-stored")
  /\ (settled /\ where = "http") => Report(p.running = <<>>, id, "C16", "task-reported-running-at-quiescence")

\* ------------------------------------------------------------------ larger codes: composed frameworks (AdfCompose)
\* The blocks are the connected components of the "mentions" relation; a code is judged if it has at most 16 statements and
\* every component at most 5 (then the block-wise definitions are cheap and the composition theorem gives the answers).
NeighS(asts, n, s) == Atoms(asts[s]) \cup { t \in 1..n : s \in Atoms(asts[t]) } \cup {s}
RECURSIVE CompOf(_, _, _)
CompOf(asts, n, S) == LET T == UNION { NeighS(asts, n, s) : s \in S } IN IF T = S THEN S ELSE CompOf(asts, n, T)
RECURSIVE SeqOfSet(_)
SeqOfSet(S) == IF S = {} THEN <<>> ELSE LET m == CHOOSE x \in S : \A y \in S : x <= y IN <<m>> \o SeqOfSet(S \ {m})
RECURSIVE BlocksOf(_, _, _)
BlocksOf(asts, n, todo) == IF todo = {} THEN <<>>
                           ELSE LET m == CHOOSE x \in todo : \A y \in todo : x <= y
                                    c == CompOf(asts, n, {m}) IN
                                <<SeqOfSet(c)>> \o BlocksOf(asts, n, todo \ c)

\* the assignments a picture is walked on: all extensions of the shown model if at most 12 statements are open, else a structured sample
ExtOf(named, names, v) ==
  LET n == Len(names)
      T == { names[i] : i \in { j \in 1..n : v[j] = "T" } }
      U == { names[i] : i \in { j \in 1..n : v[j] = "U" } } IN
  IF Cardinality(U) <= 12 THEN { T \cup X : X \in SUBSET U }
  ELSE { T \cup X : X \in { {} } \cup { {u} : u \in U } \cup { U \ {u} : u \in U } \cup { U } }

GraphOKBig(g, names, asts, v) ==
  LET n == Len(names)  N == NodeIds(g)  named == RangeOf(names) IN
  /\ GraphShape(g)
  /\ Len(g.ac) = n /\ RangeOf(g.ac) \subseteq N
  /\ Reach(g, RangeOf(g.ac), {}) = N
  /\ \A id \in N : LabelOf(g, id) \in named \cup {TOPcp, BOTcp}
  /\ \A i \in 1..n : \E x \in RangeOf(g.roots) : x[1] = g.ac[i] /\ names[i] \in RangeOf(x[2])
  /\ \A x \in RangeOf(g.roots) : \A lb \in RangeOf(x[2]) : \E i \in 1..n : names[i] = lb /\ g.ac[i] = x[1]
  /\ \A i \in 1..n : \A A \in ExtOf(named, names, v) :
       WalkG(g, g.ac[i], A, Cardinality(N) + 1) = (IF EvalL(asts[i], A) THEN "T" ELSE "F")

CheckProblemBig(p, id, where, settled) ==
  LET strict == Parse(p.code_cp)
      good == strict.ok /\ WellFormedFacts(strict.facts)
      names == Names(strict.facts)
      acs == Acs(strict.facts)
      n == Len(names)
  IN
  IF ~good \/ n > 16 THEN TRUE                                                    \* DONT_CARE for content
  ELSE
  LET byPos == [i \in DOMAIN names |-> (acs[CHOOSE k \in DOMAIN acs : acs[k][2] = names[i]])[3]]
      asts == [i \in DOMAIN names |-> ToIdx(byPos[i], names)]
      blocks == BlocksOf(asts, n, 1..n)
  IN
  IF \E k \in DOMAIN blocks : Len(blocks[k]) > 5 THEN TRUE                        \* DONT_CARE for content
  ELSE
  LET needCo == \E k \in DOMAIN p.per : p.per[k].strategy = "Complete" /\ p.per[k].type = "Some"
      bs == IF needCo THEN BlockSem(asts, blocks) ELSE BlockSemLight(asts, blocks)
      G  == GroundedC(asts, n, blocks, <<>>, bs)
      parse == p.per[1]
  IN
  /\ \A k \in DOMAIN p.per :
       LET e == p.per[k] IN
       /\ (where = "http" /\ e.type # "None") => Report(e.strategy \notin RangeOf(p.running), id, "C16", <<"ended-task-still-running", e.strategy>>)
       /\ (e.type = "Some") =>
            LET ms == [j \in DOMAIN e.models |-> TVv(e.models[j].ac)] IN
            /\ Report(CASE e.strategy = "Parse" -> Len(ms) = 1
                        [] e.strategy = "Ground" -> ms = <<G>>
                        [] e.strategy = "Complete" -> ExactlyOnceC(ms, n, asts, blocks, <<>>, bs, "co") /\ Len(ms) >= 1 /\ ms[1] = G
                        [] OTHER -> ExactlyOnceC(ms, n, asts, blocks, <<>>, bs, "st"),
                      id, "C16", <<"stored-models-differ-from-definition-for-code", e.strategy>>)
            /\ Report(\A j \in DOMAIN e.models :
                        GraphOKBig(e.models[j], names, byPos, IF e.strategy = "Parse" THEN [i \in 1..n |-> "U"] ELSE ms[j]),
                      id, "C16", <<"graph-not-faithful", e.strategy>>)
  /\ settled => Report(parse.type = "Some", id, "C16", "parse-result-never-stored")
  /\ (settled /\ where = "http") => Report(p.running = <<>>, id, "C16", "task-reported-running-at-quiescence")
  /\ PrintT(<<"BIGCODE", l, id, n, Len(blocks)>>)

\* codes beyond brute-force semantics are judged as composed frameworks where they decompose; otherwise DONT_CARE for content
CheckProblem(p, id, where, settled) ==
  IF Len(p.code_cp) <= 220 THEN CheckProblemSmall(p, id, where, settled)
  ELSE IF Len(p.code_cp) <= 1500 THEN CheckProblemBig(p, id, where, settled) ELSE TRUE

\* ------------------------------------------------------------------ HTTP events
NeedsLogin == {"get", "list", "solve", "delete", "info", "logout", "update", "delete_account"}

ShownProblems(r) == IF r.op = "get" /\ r.status = 200 THEN <<r.body.problem>>
                    ELSE IF r.op = "list" /\ r.status = 200 THEN r.body.problems ELSE <<>>

CheckHttp(r) ==
  LET shown == ShownProblems(r) IN
  \* C17: unauthenticated requests obtain nothing
  /\ (~r.had_cookie /\ r.op \in NeedsLogin) => Report(r.status = 401, r.id, "C17", <<"anonymous-request-answered", r.op>>)
  \* C17: a response to p contains only problems whose code p submitted
  /\ \A i \in DOMAIN shown :
       Report(r.p # 0 /\ shown[i].code \in codes[r.p], r.id, "C17", <<"foreign-problem-in-response", r.op>>)
  \* C17: login succeeds iff the password is the one most recently set for that account
  /\ (r.op = "login" /\ race = "none") =>
       Report((r.status = 200) = (r.args.username \in DOMAIN lastpw /\ lastpw[r.args.username] = r.args.password),
              r.id, "C17", "login-iff-password")
  \* C16: a task is reported as running for a problem only if THIS person started such a task for that problem name
  \* (an unnamed add gets a generated name: any accepted add of this person explains a running Parse)
  /\ \A i \in DOMAIN shown : \A t \in RangeOf(shown[i].running) :
       Report(<<r.p, shown[i].name, t>> \in asked \/ (t = "Parse" /\ \E a \in asked : a[1] = r.p /\ a[3] = "Parse" /\ a[2] = ""), r.id, "C16", <<"running-task-nobody-started-for-this-problem", t>>)
  \* C17 ("what it would be if that user were alone"): the account this request speaks for still has every problem that was
  \* added to it and not deleted - a rename takes them all along, nobody else's request makes them vanish
  /\ (race \in {"none", "delete-second-command"} /\ r.me \in DOMAIN acct /\ r.status = 200 /\ r.op = "list") =>
       Report(acct[r.me] \subseteq { shown[i].name : i \in DOMAIN shown }, r.id, "C17", "own-problem-missing-from-list")
  /\ (race \in {"none", "delete-second-command"} /\ r.me \in DOMAIN acct /\ r.op = "get" /\ r.args.name \in acct[r.me]) =>
       Report(r.status = 200, r.id, "C17", "own-problem-not-found")
  \* C16: every strategy can be had: a solve is refused as "already solved / running" only if this person was granted that very
  \* solve for that problem before (and has not deleted the problem since)
  /\ (r.op = "solve" /\ r.status = 409 /\ race = "none") =>
       Report(<<r.p, r.args.name, r.args.strategy>> \in granted, r.id, "C16", <<"solve-refused-although-never-granted", r.args.strategy>>)
  \* C16: "the models eventually stored and returned": once nothing is pending, every solve this person was granted for this
  \* problem has left a result (or an error) - unless the problem was deleted or the account renamed / deleted meanwhile
  /\ (quiet /\ "final" \in DOMAIN r /\ race = "none" /\ r.me \in DOMAIN acctSolves) =>
       \A i \in DOMAIN shown : \A a \in acctSolves[r.me] :
         (a[1] = shown[i].name) =>
           Report(\E k \in DOMAIN shown[i].per : shown[i].per[k].strategy = a[2] /\ shown[i].per[k].type # "None",
                  r.id, "C16", <<"accepted-solve-result-never-stored", a[2]>>)
  \* conformance with the service model (drift only): the commands this request sent to the database are exactly the
  \* footprint of its handler in Server.tla - same commands, same collections, same FILTER KEYS - and every task result is
  \* written with update_one {name, username}
  /\ LET own == SelectSeq(r.db, LAMBDA e : ~e.task)
         obs == [i \in DOMAIN own |-> <<own[i].cmd, own[i].coll, RangeOf(own[i].keys)>>]
         named == (r.op # "add") \/ r.args.name # ""
     IN /\ (race # "none" \/ "concurrent" \in DOMAIN r \/ MatchCmds(obs, 1, HandlerCommands(r.op, r.had_cookie, r.status, named), 1)
             \/ PrintT(<<"DRIFT", l, r.id, <<"handler-footprint", r.op, r.status>> >>))
        /\ ((\A e \in RangeOf(r.db) : e.task => RangeOf(e.keys) = TaskWriteKeys)
             \/ PrintT(<<"DRIFT", l, r.id, "task-write-footprint">>))
  \* C16: content of every shown problem
  /\ \A i \in DOMAIN shown : CheckProblem(shown[i], r.id, "http", quiet /\ "final" \in DOMAIN r)
  \* C16: solving unparseable code is refused
  /\ (r.op = "solve" /\ r.status = 200) =>
       \A d \in RangeOf(prevprobs) :
         \* the document of the ACCOUNT the request speaks for (a person may hold a same-named problem under another account)
         (d.name = r.args.name /\ d.username = r.me /\ d.code \in codes[r.p] /\ d.per[1].type = "Error") => Report(FALSE, r.id, "C16", "solve-accepted-for-unparseable-code")

\* account bookkeeping from OBSERVED successful requests (who knows which password for which name)
NextPw(r) ==
  IF r.status # 200 THEN lastpw
  ELSE CASE r.op = "register" -> (r.args.username :> r.args.password) @@ lastpw
         [] r.op = "update" -> (r.args.username :> r.args.password) @@ [n \in (DOMAIN lastpw \ {r.me}) |-> lastpw[n]]
         [] r.op = "delete_account" -> [n \in (DOMAIN lastpw \ {r.me}) |-> lastpw[n]]
         [] OTHER -> lastpw

\* ------------------------------------------------------------------ database snapshots
ById(ps, id) == CHOOSE d \in RangeOf(ps) : d.id = id
Ids(ps) == { d.id : d \in RangeOf(ps) }
OwnerOf(code) == { q \in DOMAIN codes : code \in codes[q] }

CheckDb(r) ==
  LET now == r.dump.probs  before == prevprobs
      gone == Ids(before) \ Ids(now)
      moved == { i \in Ids(before) \cap Ids(now) : ById(now, i).username # ById(before, i).username \/ ById(now, i).name # ById(before, i).name
                                                    \/ ById(now, i).code # ById(before, i).code }
      changed == { i \in Ids(now) : i \notin Ids(before) \/ ById(now, i) # ById(before, i) }
  IN
  \* C17: deleting / re-owning / renaming touches only documents of the acting principals
  /\ \A i \in gone \cup moved : Report(OwnerOf(ById(before, i).code) \cap actors # {}, r.id, "C17", "foreign-document-deleted-or-reowned")
  \* C17: whatever is written onto a document talks about that document's own statements only (labels carry the submitter)
  /\ \A i \in changed :
       LET d == ById(now, i)
           own == RangeOf(Names(ParseLenient(d.code_cp).facts)) \cup UNION { AtomsOf(f[3]) : f \in RangeOf(Acs(ParseLenient(d.code_cp).facts)) }
           labels == UNION { UNION { { x[2] : x \in RangeOf(e.models[j].labels) } : j \in DOMAIN e.models } : e \in RangeOf(d.per) }
       IN Report(labels \subseteq own \cup {TOPcp, BOTcp}, r.id, "C17", "foreign-content-written-onto-document")
  \* C16: every (changed) stored document is consistent with its own code
  /\ \A i \in changed : CheckProblem(ById(now, i), r.id, "db", r.pending_writes = 0 /\ "final" \in DOMAIN r)
  \* C17: credentials are salted hashes, never the password
  /\ \A u \in RangeOf(r.dump.users) :
       (u.password # "null") =>
         /\ Report(u.password \notin RangeOf([n \in DOMAIN lastpw |-> lastpw[n]]) /\ u.pw_prefix = "$argon2", r.id, "C17", "credential-not-a-hash")
         /\ Report(\A w \in RangeOf(r.dump.users) : (w.id # u.id) => w.password # u.password, r.id, "C17", "credential-not-salted")
  /\ Report(r.dump.unknown = <<>>, r.id, "C16", "stub-received-unknown-command")

\* ------------------------------------------------------------------ the trace machine
Init == /\ l = 1 /\ codes = [q \in 1..3 |-> {}] /\ lastpw = [x \in {} |-> ""] /\ prevprobs = <<>>
        /\ actors = {} /\ race = "none" /\ quiet = TRUE /\ asked = {} /\ granted = {} /\ acct = [x \in {} |-> {}] /\ acctSolves = [x \in {} |-> {}]

Next ==
  /\ l <= Len(Rec) /\ l' = l + 1
  /\ LET r == Rec[l] IN
     CASE r.kind = "reset" ->
            /\ codes' = [q \in 1..3 |-> {}] /\ lastpw' = [x \in {} |-> ""] /\ prevprobs' = <<>> /\ actors' = {}
            /\ race' = (IF "race" \in DOMAIN r THEN r.race ELSE "none") /\ quiet' = TRUE /\ asked' = {} /\ granted' = {} /\ acct' = [x \in {} |-> {}] /\ acctSolves' = [x \in {} |-> {}]
       [] r.kind = "http" ->
            /\ CheckHttp(r) \in BOOLEAN
            /\ codes' = IF r.op = "add" /\ r.p # 0 THEN [codes EXCEPT ![r.p] = @ \cup {r.args.code}] ELSE codes
            /\ lastpw' = NextPw(r)
            /\ actors' = IF r.p # 0 THEN actors \cup {r.p} ELSE actors
            \* which tasks did this person ever start (accepted add -> Parse, accepted solve -> that strategy)
            /\ asked' = IF r.status = 200 /\ r.op = "solve" THEN asked \cup {<<r.p, r.args.name, r.args.strategy>>}
                         ELSE IF r.status = 200 /\ r.op = "add" THEN asked \cup {<<r.p, r.args.name, "Parse">>}
                         ELSE asked
            \* every solve this person was ever granted (a person may use several accounts with same-named problems: kept as a superset)
            /\ granted' = IF r.status = 200 /\ r.op = "solve" THEN granted \cup {<<r.p, r.args.name, r.args.strategy>>} ELSE granted
            \* the solves granted to each ACCOUNT (followed like acct); a deleted problem takes its grants along, a rename or an
            \* account deletion may lose pending results and ends the bookkeeping for that account
            /\ acctSolves' = LET known == r.me \notin {"-", "<temp>"}
                                  cur == IF r.me \in DOMAIN acctSolves THEN acctSolves[r.me] ELSE {}
                                  Without(n) == [x \in DOMAIN acctSolves \ {n} |-> acctSolves[x]] IN
                              IF r.status # 200 \/ ~known THEN acctSolves
                              ELSE CASE r.op = "solve" -> (r.me :> (cur \cup {<<r.args.name, r.args.strategy>>})) @@ acctSolves
                                     [] r.op = "delete" -> (r.me :> { a \in cur : a[1] # r.args.name }) @@ acctSolves
                                     [] r.op \in {"update", "delete_account"} -> Without(r.me)
                                     [] OTHER -> acctSolves
            \* the problems of each ACCOUNT as the observer knows them (accounts are followed through renames by the cookie's name
            \* before the request, r.me; temporary accounts have no known name and are not followed)
            /\ acct' = LET known == r.me \notin {"-", "<temp>"}
                            cur == IF r.me \in DOMAIN acct THEN acct[r.me] ELSE {}
                            Without(n) == [x \in DOMAIN acct \ {n} |-> acct[x]] IN
                        IF r.status # 200 \/ ~known THEN acct
                        ELSE CASE r.op = "add" /\ r.args.name # "" -> (r.me :> (cur \cup {r.args.name})) @@ acct
                               [] r.op = "delete" -> (r.me :> (cur \ {r.args.name})) @@ acct
                               [] r.op = "update" -> (r.args.username :> cur) @@ Without(r.me)
                               [] r.op = "delete_account" -> Without(r.me)
                               [] OTHER -> acct
            /\ UNCHANGED <<prevprobs, race, quiet>>
       [] r.kind = "db" ->
            /\ CheckDb(r) \in BOOLEAN
            /\ prevprobs' = r.dump.probs /\ actors' = {} /\ quiet' = (r.pending_writes = 0)
            /\ UNCHANGED <<codes, lastpw, race, asked, granted, acct, acctSolves>>
       [] OTHER -> UNCHANGED <<codes, lastpw, prevprobs, actors, race, quiet, asked, granted, acct, acctSolves>>

Spec == Init /\ [][Next]_vars
Consumed == (TLCGet("stats").diameter - 1 = Len(Rec))
              \/ PrintT(<<"NOTCONSUMED", TLCGet("stats").diameter, Len(Rec)>>)
=============================================================================
