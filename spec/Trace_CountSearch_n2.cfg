SPECIFICATION TraceSpec
CONSTANTS N = 2
          AdfSetKind = "all"
          FixedLoop = TRUE
          FixedMore = TRUE
POSTCONDITION Consumed
CHECK_DEADLOCK FALSE
