----------------------------- MODULE NoGoodsOps -----------------------------
(***************************************************************************)
(* lib/src/nogoods.rs transcribed: nogoods / interpretations as pairs of   *)
(* position sets [act, val] (val \subseteq act = the positions set to true),*)
(* the store as buckets by size, add_ng per duplicate-elimination mode,    *)
(* conclude, try_from_pair_iter, conclusions (bucket fold + final          *)
(* violation test) and conclusion_closure.                                 *)
(*                                                                         *)
(* FixedFold / FixedSubsume select the repaired or the originally shipped  *)
(* behaviour of two places (fidelity self-test: the unrepaired             *)
(* transcription must rediscover the defects).                             *)
(***************************************************************************)
EXTENDS Naturals, FiniteSets, Sequences

CONSTANTS V,             \* positions are 1..V
          FixedFold,     \* TRUE: fold reports a conflict on CONTRADICTING literals (repaired); FALSE: on re-derived ones
          FixedSubsume   \* TRUE: Subsume keeps the stronger nogood (repaired); FALSE: removes the nogoods the new one extends

Pos == 1..V
PA == UNION { { [act |-> a, val |-> t] : t \in SUBSET a } : a \in SUBSET Pos }   \* all partial assignments
Total == { [act |-> Pos, val |-> t] : t \in SUBSET Pos }
EmptyPA == [act |-> {}, val |-> {}]

NoVal == [act |-> {0}, val |-> {0}]     \* "None", shaped like a value
NoPair == <<0, FALSE>>

SymDiff(a, b) == (a \ b) \cup (b \ a)

\* NoGood::is_violating(self = ng, other = I): I matches every assignment of ng
IsViolating(ng, I) == ng.act \subseteq I.act /\ (ng.act \cap ng.val) = (ng.act \cap I.val)

\* NoGood::conclude(self = ng, other = I)
Conclude(ng, I) ==
  LET impl    == ng.act \ I.act
      both    == ng.act \cap I.act
      nomatch == SymDiff(both \cap I.val, both \cap ng.val)
  IN IF Cardinality(impl) = 1 /\ nomatch = {}
     THEN LET pos == CHOOSE p \in impl : TRUE IN <<pos, pos \notin ng.val>>
     ELSE NoPair

\* NoGood::try_from_pair_iter on a set of pairs (order is immaterial: a clash is a clash)
FromPairs(ps) ==
  IF ps = {} THEN NoVal
  ELSE IF \E p, q \in ps : p[1] = q[1] /\ p[2] # q[2] THEN NoVal
  ELSE [act |-> { p[1] : p \in ps }, val |-> { p[1] : p \in { q \in ps : q[2] } }]

\* NoGood::disjunction
Disj(a, b) == [act |-> a.act \cup b.act, val |-> a.val \cup b.val]
Contradicts(a, b) == \E x \in a.act \cap b.act : (x \in a.val) # (x \in b.val)

(***************************************************************************)
(* The store: [1..V -> SUBSET PA]; bucket k holds the nogoods of size k    *)
(* (the code's store[k-1]).  Duplicates inside a bucket (mode None) do not *)
(* change any conclusion, so buckets are sets.                             *)
(***************************************************************************)
EmptyStore == [k \in 1..V |-> {}]
StoreSet(store) == UNION { store[k] : k \in 1..V }

BucketConcl(store, k, I) == FromPairs({ Conclude(ng, I) : ng \in store[k] } \ {NoPair})

RECURSIVE Fold(_, _, _, _)
Fold(store, k, I, acc) ==          \* try_fold over the buckets with len <= |I|; NoVal = conflict
  IF k > V \/ k - 1 > Cardinality(I.act) THEN acc
  ELSE LET c == BucketConcl(store, k, I) IN
       IF c = NoVal THEN Fold(store, k + 1, I, acc)
       ELSE IF (IF FixedFold THEN Contradicts(c, acc) ELSE IsViolating(c, acc)) THEN NoVal
       ELSE Fold(store, k + 1, I, Disj(acc, c))

\* NoGoodStore::conclusions
Conclusions(store, I) ==
  LET r == Fold(store, 1, I, I) IN
  IF r = NoVal THEN NoVal
  ELSE IF \E k \in 1..V : /\ k - 1 <= Cardinality(I.act)
                          /\ \E ng \in store[k] : IsViolating(ng, r) \/ IsViolating(ng, I)
       THEN NoVal
       ELSE r

\* NoGoodStore::add_ng under the three modes
AddNg(store, mode, ng) ==
  LET k == Cardinality(ng.act) IN
  IF k = 0 THEN store
  ELSE CASE mode = "None"  -> [store EXCEPT ![k] = @ \cup {ng}]
         [] mode = "Equiv" -> [store EXCEPT ![k] = @ \cup {ng}]
         [] mode = "Subsume" ->
              IF FixedSubsume THEN
                 IF \E j \in 1..k : \E o \in store[j] : IsViolating(o, ng) THEN store
                 ELSE [j \in 1..V |-> IF j = k THEN { o \in store[j] : ~IsViolating(ng, o) } \cup {ng}
                                      ELSE IF j > k THEN { o \in store[j] : ~IsViolating(ng, o) }
                                      ELSE store[j]]
              ELSE [j \in 1..V |-> IF j = k THEN { o \in store[j] : ~IsViolating(o, ng) } \cup {ng}
                                   ELSE IF j < k THEN { o \in store[j] : ~IsViolating(o, ng) }
                                   ELSE store[j]]

(***************************************************************************)
(* conclusion_closure on interpretations given as partial assignments.     *)
(* Result: <<tag, interpretation>>, tag in Inconsistent / NoUpdate / Update*)
(***************************************************************************)
RECURSIVE ClosureLoop(_, _)
ClosureLoop(store, r) ==
  LET c == Conclusions(store, r) IN
  IF c = NoVal THEN <<"Inconsistent", r>>
  ELSE IF c.act # r.act THEN ClosureLoop(store, c) ELSE <<"Update", c>>

Closure(store, I) ==
  LET c == Conclusions(store, I) IN
  IF c = NoVal THEN <<"Inconsistent", I>>
  ELSE IF c.act = I.act THEN <<"NoUpdate", I>>
  ELSE ClosureLoop(store, c)

(***************************************************************************)
(* Reference notions (what the property talks about).                      *)
(***************************************************************************)
Ext(I) == { t \in Total : I.act \subseteq t.act /\ (I.act \cap t.val) = I.val }
Excluded(ngs) == { t \in Total : \E ng \in ngs : IsViolating(ng, t) }
Safe(ngs, I) == Ext(I) \ Excluded(ngs)
\* c (a partial assignment extending I) contains only literals forced by ngs under I
OnlyForced(ngs, I, c) == \A t \in Safe(ngs, I) : c.act \subseteq t.act /\ (c.act \cap t.val) = c.val
=============================================================================
