-------------------------------- MODULE Server --------------------------------
(***************************************************************************)
(* The web service (server/src/user.rs, server/src/adf.rs) at the grain at *)
(* which it is actually atomic: ONE DATABASE COMMAND (or one in-memory     *)
(* step on currently_running) per action.  Principals are people with one  *)
(* cookie jar each; at most one request per principal is in flight, but    *)
(* requests of different principals and background tasks interleave at     *)
(* every command.  Ownership is ghost state: every account and problem     *)
(* document remembers the principal that created it.                       *)
(*                                                                         *)
(* Handlers (pc = next command):                                           *)
(*   register : find user -> insert user                                   *)
(*   login    : find user (+ password check) -> cookie                     *)
(*   update   : [find new name] -> replace user -> cookie -> update_many   *)
(*              problems old->new                                          *)
(*   delacct  : delete_many problems -> delete_one user -> cookie cleared  *)
(*   add      : find problem -> insert problem -> spawn Parse task         *)
(*   solve    : find problem -> check stored result / running -> spawn     *)
(*   get, list, delprob : one command each, filtered on (name, username)   *)
(* Tasks: register in running -> compute (may panic) -> deregister ->      *)
(*        update_one {name, username} with the result.                     *)
(*                                                                         *)
(* Known findings are part of the model as named CAUSES: where an          *)
(* isolation / integrity invariant can fail, the failing action classifies *)
(* why (rename window, stale task write, stale session) or "unexplained".  *)
(* TLC checks                                                              *)
(* that within the bound nothing unexplained ever happens.                 *)
(***************************************************************************)
EXTENDS ServerShapes, TLC

CONSTANTS Principals,      \* e.g. {"A", "B"}
          Accounts,        \* account names, e.g. {"alice", "carol"}
          PNames,          \* problem names
          Codes,           \* submitted codes (abstract): good ones
          BadCodes,        \* unparseable codes
          BoomCodes,       \* grammatical codes whose parse task panics
          Strategies,
          MaxReq,          \* bound on the number of requests
          TempNames,       \* account names the service generates for anonymous adds ({} in the exhaustive configurations)
          GenPNames,       \* problem names the service generates for unnamed adds
          FilterOnOwner,   \* FALSE: get_adf_problem filters on the name only (mutation self-test)
          FixedF8,         \* TRUE: the continuation deregisters a panicked task (repaired), FALSE: as shipped
          Person(_)        \* principal (= one cookie jar, one device) -> the person using it; ownership is by person

AllCodes == Codes \cup BadCodes \cup BoomCodes
Pw(p) == "pw-" \o Person(p)            \* each person knows only its own password (principals are strings in the exhaustive configurations)
IdPerson(p) == p                       \* cfg: Person <- IdPerson  (every jar is its own person)
DevPerson(p) == IF p = "A2" THEN "A" ELSE p   \* cfg: Person <- DevPerson  ("A2" is the second device of person "A")
NoUser == "-"

VARIABLES users,     \* account name -> [pw, owner]
          probs,     \* set of documents [id, name, user, code, adfOf, res, owner]
          running,   \* set of [user, name, task]
          cookie,    \* principal -> account name or NoUser
          req,       \* principal -> request record or [op |-> "idle"]
          tasks,     \* set of background tasks
          nextId, nreq,
          foreignRead, foreignEffect, wrongResult,  \* ghost: set of causes observed so far
          lostResult, \* ghost: why the result of an accepted task never reached a document
          stale      \* ghost: principals whose cookie names an account that another request has vacated (deleted / renamed) since

vars == <<users, probs, running, cookie, req, tasks, nextId, nreq, foreignRead, foreignEffect, wrongResult, lostResult, stale>>

Idle == [op |-> "idle", status |-> 0]
NeedsLogin == {"logout", "info", "update", "delacct", "solve", "get", "list", "delprob"}
NoRes == [s \in Strategies |-> "None"]

Init == /\ users = [n \in {} |-> 0] /\ probs = {} /\ running = {} /\ cookie = [p \in Principals |-> NoUser]
        /\ req = [p \in Principals |-> Idle] /\ tasks = {} /\ nextId = 1 /\ nreq = 0
        /\ foreignRead = {} /\ foreignEffect = {} /\ wrongResult = {} /\ lostResult = {} /\ stale = {}

Exists(n) == n \in DOMAIN users
Find(pn, u) == { d \in probs : d.name = pn /\ d.user = u }
\* the handler answers with HTTP status st
Fin(p, st) == req' = [req EXCEPT ![p] = [op |-> "idle", status |-> st]]

\* ---- causes (ghost)
\* an account name that was vacated by a rename whose update_many is still pending
RenameInFlight(n) == \E q \in Principals : req[q].op = "update" /\ req[q].pc = 3 /\ req[q].me = n
\* a document carries the cause that once put it into foreign hands / gave it foreign content (taint): later reads and
\* effects on it are consequences of that first failure, not new ones
\* the session of p outlived its account: the cookie was issued for a name that has been vacated since (and may belong to
\* someone else now), or it is a fresh cookie for an account that was taken over that way (taint on the account)
Via(p) == IF p \in stale THEN "stale-session"
          ELSE IF req[p].op # "idle" /\ req[p].me \in DOMAIN users /\ users[req[p].me].taint # "" THEN users[req[p].me].taint ELSE ""
Cause(p, d) == IF d.owner = Person(p) THEN {} ELSE IF d.taint # "" THEN {d.taint}
               ELSE IF Via(p) # "" THEN {Via(p)}
               ELSE IF RenameInFlight(d.user) THEN {"rename-window"} ELSE {"unexplained"}
\* an account deletion is two commands: a document inserted for n between them survives the account
DeleteInFlight(n) == \E q \in Principals : req[q].op = "delacct" /\ req[q].pc = 2 /\ req[q].me = n
\* acting on an account of another person
AcctCause(p, n) == IF users[n].owner = Person(p) THEN {} ELSE IF Via(p) # "" THEN {Via(p)} ELSE {"unexplained"}
\* everybody else who still holds a cookie for the vacated name n
Stranded(p, n) == { q \in Principals \ {p} : cookie[q] = n }
ReadCause(p, d) == Cause(p, d)

(******************************* requests **********************************)
Start(p, r) == /\ req[p].op = "idle" /\ nreq < MaxReq /\ nreq' = nreq + 1
               /\ req' = [req EXCEPT ![p] = r @@ [pc |-> 1, me |-> cookie[p]]]
               /\ UNCHANGED <<users, probs, running, cookie, tasks, nextId, foreignRead, foreignEffect, wrongResult, lostResult, stale>>

NewRequest(p) ==
  \/ \E n \in Accounts : Start(p, [op |-> "register", n |-> n, pw |-> Pw(p)])
  \/ \E n \in Accounts : Start(p, [op |-> "login", n |-> n, pw |-> Pw(p)])
  \/ cookie[p] # NoUser /\ \E n \in Accounts : Start(p, [op |-> "update", n |-> n, pw |-> Pw(p)])
  \/ cookie[p] # NoUser /\ Start(p, [op |-> "delacct"])
  \/ cookie[p] # NoUser /\ Start(p, [op |-> "logout"])
  \/ (cookie[p] # NoUser \/ TempNames # {}) /\ \E pn \in PNames, c \in AllCodes : Start(p, [op |-> "add", pn |-> pn, code |-> c])
  \/ cookie[p] # NoUser /\ \E pn \in PNames, s \in Strategies : Start(p, [op |-> "solve", pn |-> pn, s |-> s])
  \/ cookie[p] # NoUser /\ \E pn \in PNames : Start(p, [op |-> "get", pn |-> pn])
  \/ cookie[p] # NoUser /\ Start(p, [op |-> "list"])
  \/ cookie[p] # NoUser /\ \E pn \in PNames : Start(p, [op |-> "delprob", pn |-> pn])

Unch(S) == UNCHANGED S

\* one database command (or in-memory step) of p's request in flight
Step(p) ==
  LET r == req[p] IN
  /\ r.op # "idle"
  /\ nreq' = nreq /\ lostResult' = lostResult
  /\ CASE r.op \in NeedsLogin /\ r.me = NoUser ->                \* no identity: 401 without touching the database
            /\ Fin(p, 401)
            /\ Unch(<<users, probs, running, cookie, tasks, nextId, foreignRead, foreignEffect, wrongResult>>)
       [] r.op = "register" /\ r.pc = 1 ->                       \* find user
            /\ IF Exists(r.n) THEN Fin(p, 409) ELSE req' = [req EXCEPT ![p].pc = 2]
            /\ Unch(<<users, probs, running, cookie, tasks, nextId, foreignRead, foreignEffect, wrongResult>>)
       [] r.op = "register" /\ r.pc = 2 ->                       \* insert user (unique index)
            /\ users' = IF Exists(r.n) THEN users ELSE (r.n :> [pw |-> r.pw, owner |-> Person(p), taint |-> ""]) @@ users
            /\ Fin(p, IF Exists(r.n) THEN 500 ELSE 200)
            /\ Unch(<<probs, running, cookie, tasks, nextId, foreignRead, foreignEffect, wrongResult>>)
       [] r.op = "login" ->                                      \* find user, verify password (temporary accounts cannot log in)
            /\ LET good == Exists(r.n) /\ users[r.n].pw # "TEMP" /\ users[r.n].pw = r.pw IN
               /\ cookie' = IF good THEN [cookie EXCEPT ![p] = r.n] ELSE cookie
               /\ Fin(p, IF ~Exists(r.n) THEN 404 ELSE IF good THEN 200 ELSE 400)
            /\ Unch(<<users, probs, running, tasks, nextId, foreignRead, foreignEffect, wrongResult>>)
       [] r.op = "logout" ->                                     \* find user; temporary users are not logged out
            /\ LET good == Exists(r.me) /\ users[r.me].pw # "TEMP" IN
               /\ cookie' = IF good THEN [cookie EXCEPT ![p] = NoUser] ELSE cookie
               /\ Fin(p, IF ~Exists(r.me) THEN 404 ELSE IF good THEN 200 ELSE 400)
            /\ Unch(<<users, probs, running, tasks, nextId, foreignRead, foreignEffect, wrongResult>>)
       [] r.op = "info" ->                                       \* find user; a vanished account ends the session
            /\ cookie' = IF Exists(r.me) THEN cookie ELSE [cookie EXCEPT ![p] = NoUser]
            /\ Fin(p, IF Exists(r.me) THEN 200 ELSE 404)
            /\ Unch(<<users, probs, running, tasks, nextId, foreignRead, foreignEffect, wrongResult>>)
       [] r.op = "update" /\ r.pc = 1 ->                         \* find new name (only asked when the name changes)
            /\ IF r.n # r.me /\ Exists(r.n) THEN Fin(p, 409) ELSE req' = [req EXCEPT ![p].pc = 2]
            /\ Unch(<<users, probs, running, cookie, tasks, nextId, foreignRead, foreignEffect, wrongResult>>)
       [] r.op = "update" /\ r.pc = 2 ->                         \* replace_one users {username: me}
            /\ IF Exists(r.me) /\ (r.n = r.me \/ ~Exists(r.n))
               THEN LET ac == AcctCause(p, r.me)
                        why == IF ac = {} THEN "" ELSE CHOOSE c \in ac : TRUE IN
                    /\ users' = (r.n :> [pw |-> r.pw, owner |-> users[r.me].owner, taint |-> IF users[r.me].taint = "" THEN why ELSE users[r.me].taint])
                                 @@ [m \in DOMAIN users \ {r.me} |-> users[m]]
                    /\ foreignEffect' = foreignEffect \cup ac
                    /\ cookie' = [cookie EXCEPT ![p] = r.n]
                    /\ req' = [req EXCEPT ![p] = [@ EXCEPT !.pc = 3] @@ [hv |-> IF Via(p) # "" THEN Via(p) ELSE "rename-window"]]
               ELSE /\ Fin(p, 500) /\ Unch(<<users, cookie, foreignEffect>>)
            /\ Unch(<<probs, running, tasks, nextId, foreignRead, wrongResult>>)
       [] r.op = "update" /\ r.pc = 3 ->                         \* update_many problems me -> n
            /\ probs' = { IF d.user = r.me THEN [d EXCEPT !.user = r.n, !.taint = IF d.owner # Person(p) /\ @ = "" THEN r.hv ELSE @] ELSE d : d \in probs }
            \* documents of another person created under the vacated name meanwhile are taken along
            /\ foreignEffect' = foreignEffect \cup { (IF d.taint # "" THEN d.taint ELSE r.hv) : d \in { x \in probs : x.user = r.me /\ x.owner # Person(p) } }
            /\ Fin(p, 200)
            /\ Unch(<<users, running, cookie, tasks, nextId, foreignRead, wrongResult>>)
       [] r.op = "delacct" /\ r.pc = 1 ->                        \* delete_many problems
            /\ probs' = { d \in probs : d.user # r.me }
            /\ foreignEffect' = foreignEffect \cup UNION { Cause(p, d) : d \in { x \in probs : x.user = r.me } }
            /\ req' = [req EXCEPT ![p].pc = 2]
            /\ Unch(<<users, running, cookie, tasks, nextId, foreignRead, wrongResult>>)
       [] r.op = "delacct" /\ r.pc = 2 ->                        \* delete_one user
            /\ users' = [m \in DOMAIN users \ {r.me} |-> users[m]]
            /\ foreignEffect' = foreignEffect \cup (IF Exists(r.me) THEN AcctCause(p, r.me) ELSE {})
            /\ cookie' = IF Exists(r.me) THEN [cookie EXCEPT ![p] = NoUser] ELSE cookie
            /\ Fin(p, IF Exists(r.me) THEN 200 ELSE 500)
            /\ Unch(<<probs, running, tasks, nextId, foreignRead, wrongResult>>)
       [] r.op = "add" /\ r.me = NoUser ->                       \* anonymous: find a free generated name, insert a temporary user, log it in
            /\ IF TempNames \ DOMAIN users = {} THEN Fin(p, 500) /\ Unch(<<users, cookie>>)
               ELSE LET t == CHOOSE x \in TempNames \ DOMAIN users : TRUE IN
                    /\ users' = (t :> [pw |-> "TEMP", owner |-> Person(p), taint |-> ""]) @@ users
                    /\ cookie' = [cookie EXCEPT ![p] = t]
                    /\ req' = [req EXCEPT ![p].me = t]
            /\ Unch(<<probs, running, tasks, nextId, foreignRead, foreignEffect, wrongResult>>)
       [] r.op = "add" /\ r.pc = 1 ->                            \* find problem (an unnamed problem gets a free generated name)
            /\ IF r.pn = ""
               THEN LET free == { g \in GenPNames : Find(g, r.me) = {} } IN
                    IF free = {} THEN Fin(p, 500) ELSE req' = [req EXCEPT ![p].pc = 2, ![p].pn = CHOOSE g \in free : TRUE]
               ELSE IF Find(r.pn, r.me) # {} THEN Fin(p, 409) ELSE req' = [req EXCEPT ![p].pc = 2]
            /\ Unch(<<users, probs, running, cookie, tasks, nextId, foreignRead, foreignEffect, wrongResult>>)
       [] r.op = "add" /\ r.pc = 2 ->                            \* insert problem, spawn the parse task
            /\ probs' = probs \cup {[id |-> nextId, name |-> r.pn, user |-> r.me, code |-> r.code, adfOf |-> "None", res |-> NoRes, owner |-> Person(p),
                                 taint |-> IF Via(p) # "" THEN Via(p) ELSE IF DeleteInFlight(r.me) THEN "delete-window" ELSE ""]}
            /\ tasks' = tasks \cup {[kind |-> "Parse", name |-> r.pn, user |-> r.me, code |-> r.code, s |-> "Parse", pc |-> 1,
                                     owner |-> Person(p), doc |-> nextId, out |-> "None", via |-> ""]}
            /\ nextId' = nextId + 1
            /\ Fin(p, 200)
            /\ Unch(<<users, running, cookie, foreignRead, foreignEffect, wrongResult>>)
       [] r.op = "solve" /\ r.pc = 1 ->                          \* find problem; needs a parsed adf
            /\ LET ds == Find(r.pn, r.me) IN
               IF ds = {} THEN Fin(p, 404) /\ Unch(<<foreignRead>>)
               ELSE LET d == CHOOSE x \in ds : TRUE IN
                    /\ foreignRead' = foreignRead \cup ReadCause(p, d)
                    /\ IF d.adfOf \in {"None", "Error"} THEN Fin(p, 400)
                       ELSE req' = [req EXCEPT ![p] = [@ EXCEPT !.pc = 2] @@ [snap |-> d.adfOf, solved |-> d.res[r.s] \notin {"None", "Error"}, doc |-> d.id,
                                                                                   rc |-> IF ReadCause(p, d) = {} THEN "" ELSE CHOOSE c \in ReadCause(p, d) : TRUE]]
            /\ Unch(<<users, probs, running, cookie, tasks, nextId, foreignEffect, wrongResult>>)
       [] r.op = "solve" /\ r.pc = 2 ->                          \* has_been_solved / running? else spawn
            /\ IF r.solved \/ [user |-> r.me, name |-> r.pn, task |-> r.s] \in running
               THEN Unch(<<tasks>>) /\ Fin(p, 409)
               ELSE /\ tasks' = tasks \cup {[kind |-> "Solve", name |-> r.pn, user |-> r.me, code |-> r.snap, s |-> r.s, pc |-> 1,
                                             owner |-> Person(p), doc |-> r.doc, out |-> "None", via |-> r.rc]}
                    /\ Fin(p, 200)
            /\ Unch(<<users, probs, running, cookie, nextId, foreignRead, foreignEffect, wrongResult>>)
       [] r.op = "get" ->                                        \* find_one {name, username}
            /\ LET ds == IF FilterOnOwner THEN Find(r.pn, r.me) ELSE { d \in probs : d.name = r.pn } IN
               /\ foreignRead' = foreignRead \cup UNION { ReadCause(p, d) : d \in ds }
               /\ Fin(p, IF ds = {} THEN 404 ELSE 200)
            /\ Unch(<<users, probs, running, cookie, tasks, nextId, foreignEffect, wrongResult>>)
       [] r.op = "list" ->                                       \* find {username}
            /\ foreignRead' = foreignRead \cup UNION { ReadCause(p, d) : d \in { x \in probs : x.user = r.me } }
            /\ Fin(p, 200)
            /\ Unch(<<users, probs, running, cookie, tasks, nextId, foreignEffect, wrongResult>>)
       [] r.op = "delprob" ->                                    \* delete_one {name, username}
            /\ LET ds == Find(r.pn, r.me) IN
               IF ds = {} THEN Unch(<<probs, foreignEffect>>) /\ Fin(p, 500)
               ELSE LET d == CHOOSE x \in ds : TRUE IN
                    /\ probs' = probs \ {d}
                    /\ foreignEffect' = foreignEffect \cup Cause(p, d)
                    /\ Fin(p, 200)
            /\ Unch(<<users, running, cookie, tasks, nextId, foreignRead, wrongResult>>)
  \* ghost: whose session has just been stranded (the account its cookie names was vacated by p), whose cookie was re-issued
  /\ stale' = (stale \ ({ q \in Principals : cookie'[q] # cookie[q] }
                         \cup (IF r.op = "login" /\ req'[p].status = 200 THEN {p} ELSE {})))
              \cup { q \in Principals \ {p} : cookie[q] # NoUser /\ cookie[q] \in DOMAIN users /\ cookie[q] \notin DOMAIN users' }

(***************************** background tasks *****************************)
TaskStep(t) ==
  /\ t \in tasks /\ nreq' = nreq
  /\ LET ri == [user |-> t.user, name |-> t.name, task |-> t.s] IN
     CASE t.pc = 1 ->                                            \* running.insert
            /\ running' = running \cup {ri}
            /\ tasks' = (tasks \ {t}) \cup {[t EXCEPT !.pc = 2]}
            /\ Unch(<<users, probs, cookie, req, nextId, foreignRead, foreignEffect, wrongResult, lostResult, stale>>)
       [] t.pc = 2 ->                                            \* compute; a panic skips the deregistration
            /\ LET out == IF t.code \in BadCodes \cup BoomCodes THEN "Error" ELSE t.code
                   panicked == t.code \in BoomCodes IN
               /\ running' = IF panicked THEN running ELSE running \ {ri}
               /\ tasks' = (tasks \ {t}) \cup {[t EXCEPT !.pc = 3, !.out = out]}
            /\ Unch(<<users, probs, cookie, req, nextId, foreignRead, foreignEffect, wrongResult, lostResult, stale>>)
       [] t.pc = 3 ->                                            \* continuation: [deregister;] update_one {name, username}
            /\ running' = IF FixedF8 THEN running \ {ri} ELSE running
            /\ LET hit == Find(t.name, t.user) IN
               /\ probs' = { IF d \in hit
                              THEN [(IF t.kind = "Parse" THEN [d EXCEPT !.adfOf = t.out] ELSE [d EXCEPT !.res[t.s] = t.out])
                                      EXCEPT !.taint = IF d.id # t.doc /\ @ = "" THEN "stale-task-write" ELSE @]
                              ELSE d : d \in probs }
               \* the write lands on a document other than the one the task was started for (or on one already tainted)
               /\ wrongResult' = wrongResult \cup UNION { IF t.out \in {"Error", d.code} THEN {}
                                                          ELSE IF d.id # t.doc THEN {"stale-task-write"}
                                                          ELSE IF d.taint # "" THEN {d.taint} ELSE {"unexplained"} : d \in hit }
               \* a task started through a foreign read (ghost field via) writes onto the document it read
               /\ foreignEffect' = foreignEffect \cup UNION { IF d.owner = t.owner THEN {} ELSE IF d.id # t.doc THEN {"stale-task-write"}
                                                              ELSE IF t.via # "" THEN {t.via}
                                                              ELSE IF d.taint # "" THEN {d.taint} ELSE {"unexplained"} : d \in hit }
               \* the write matched nothing: the result is lost - because the problem is gone, or because it moved to another
               \* account name while the task was running (the third race shape: rename during a running task)
               /\ lostResult' = lostResult \cup (IF hit # {} THEN {}
                                                  ELSE IF ~\E d \in probs : d.id = t.doc THEN {"problem-deleted"}
                                                  ELSE IF \E d \in probs : d.id = t.doc /\ d.user # t.user THEN {"renamed-during-task"}
                                                  ELSE {"unexplained"})
            /\ tasks' = tasks \ {t}
            /\ Unch(<<users, cookie, req, nextId, foreignRead, stale>>)

Next == \/ \E p \in Principals : NewRequest(p) \/ Step(p)
        \/ \E t \in tasks : TaskStep(t)
Spec == Init /\ [][Next]_vars

(******************************* properties ********************************)
\* C17: whatever breaks isolation is one of the listed race shapes - nothing unexplained, ever
NoUnexplainedRead   == "unexplained" \notin foreignRead
NoUnexplainedEffect == "unexplained" \notin foreignEffect
\* C16: a stored result belongs to the stored code, or the failure is the listed stale write
ResultsMatchCode == \A d \in probs : d.taint = "" => /\ d.adfOf \in {"None", "Error", d.code}
                                                       /\ \A s \in Strategies : d.res[s] \in {"None", "Error", d.code}
NoUnexplainedResult == "unexplained" \notin wrongResult
\* C16 ("eventually stored"): an accepted task's result is lost only when its problem was deleted or renamed away meanwhile
NoUnexplainedLoss == "unexplained" \notin lostResult
\* ... and without those two, never: expected to FAIL where renames exist (documents the third race shape)
NoLostResult == "renamed-during-task" \notin lostResult
\* C16: unparseable code never has a diagram or an answer
ErrorNotEmpty == \A d \in probs : d.code \in BadCodes \cup BoomCodes =>
                    (d.adfOf \in {"None", "Error"} \/ d.taint # "")
\* C16: when no task is left nothing is reported as running (needs the repaired continuation)
EndedNotRunning == (FixedF8 /\ tasks = {}) => running = {}
\* C17: accounts are unique and only their owner ever holds their cookie - apart from the rename window
CookieOwn == \A p \in Principals : cookie[p] # NoUser /\ Exists(cookie[p]) => users[cookie[p]].owner = Person(p)
\* without any race nothing at all goes wrong: strict versions, expected to FAIL (they document the findings)
StrictIsolation == foreignRead = {} /\ foreignEffect = {}
StrictResults == wrongResult = {}
\* a session that outlived its account reaches into whoever owns the name now: expected to FAIL with two devices (finding F12)
NoStaleSessionAccess == "stale-session" \notin (foreignRead \cup foreignEffect)
\* bound for the three-jar configuration: the second device only logs in and then reads / deletes; requests run one at a time
\* except for one overlap (the rename window needs two in flight)
DevBound == /\ Cardinality({ p \in Principals : req[p].op # "idle" }) <= 2
            /\ req["A2"].op \in {"idle", "login", "get", "list", "delprob", "add", "update", "delacct"}
            /\ req["B"].op \in {"idle", "register", "login", "add", "get", "list"}
DevBoundNarrow == /\ DevBound
                  /\ req["A2"].op \in {"idle", "login", "get", "list", "delprob", "add"}
                  /\ req["B"].op \in {"idle", "register", "login", "add", "get"}
\* as shipped (FixedF8 = FALSE) a panicked task stays in running forever: expected to FAIL
EndedNotRunningShipped == tasks = {} => running = {}
=============================================================================
