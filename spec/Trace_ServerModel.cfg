SPECIFICATION TraceSpec
CONSTANTS Principals <- TPrincipals
          Accounts <- TAccounts
          PNames <- TPNames
          Codes <- TCodes
          BadCodes <- TBad
          BoomCodes <- TBoom
          Strategies <- TStrategies
          TempNames <- TTemp
          GenPNames <- TGen
          MaxReq = 1000000
          FilterOnOwner = TRUE
          FixedF8 = TRUE
          Person <- IdPerson
CONSTRAINT Reached
POSTCONDITION Report
CHECK_DEADLOCK FALSE
