SPECIFICATION Spec
INVARIANTS OrderOK SameOnCommon RewSame Done
CHECK_DEADLOCK FALSE
