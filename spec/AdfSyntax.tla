------------------------------ MODULE AdfSyntax ------------------------------
(***************************************************************************)
(* The documented input format of adf-obdd as a recursive-descent          *)
(* recogniser over CODE POINTS (TLC cannot index strings), written with    *)
(* ordered choice exactly like lib/src/parser.rs does with nom:            *)
(*    file      ::= fact+                          (all input consumed)    *)
(*    fact      ::= statement | ac                                         *)
(*    statement ::= "s(" atomic ")" "." ws                                 *)
(*    ac        ::= "ac(" atomic ws "," ws formula ")" "." ws              *)
(*    formula   ::= "c(v)" | "c(f)" | bin | "neg(" formula ")" | atomic    *)
(*    bin       ::= ("and"|"or"|"imp"|"xor"|"iff") "(" formula ws "," ws formula ")" *)
(*    atomic    ::= '"' [^"]* '"' | [A-Za-z0-9]+                           *)
(* Lenient = TRUE additionally allows blanks before every token (used only *)
(* to delimit the DONT_CARE zone of the rejection oracle).                 *)
(* ASTs: <<"top">> <<"bot">> <<"atom", label>> <<"not", f>> <<op, f, g>>,  *)
(* labels being sequences of code points.                                  *)
(***************************************************************************)
EXTENDS Naturals, Sequences, FiniteSets

QUOTE == 34   LP == 40   RP == 41   COMMA == 44   DOT == 46
IsWs(c) == c \in {32, 9, 10, 13}
IsAlnum(c) == (c >= 48 /\ c <= 57) \/ (c >= 65 /\ c <= 90) \/ (c >= 97 /\ c <= 122)

T_s   == <<115>>
T_ac  == <<97, 99>>
T_neg == <<110, 101, 103>>
T_and == <<97, 110, 100>>
T_or  == <<111, 114>>
T_imp == <<105, 109, 112>>
T_xor == <<120, 111, 114>>
T_iff == <<105, 102, 102>>
T_cv  == <<99, 40, 118, 41>>
T_cf  == <<99, 40, 102, 41>>

At(s, p, c) == p <= Len(s) /\ s[p] = c
Tag(s, p, t) == p + Len(t) - 1 <= Len(s) /\ SubSeq(s, p, p + Len(t) - 1) = t

RECURSIVE SkipWs(_, _)
SkipWs(s, p) == IF p <= Len(s) /\ IsWs(s[p]) THEN SkipWs(s, p + 1) ELSE p
RECURSIVE AlnumEnd(_, _)
AlnumEnd(s, p) == IF p <= Len(s) /\ IsAlnum(s[p]) THEN AlnumEnd(s, p + 1) ELSE p
RECURSIVE QuoteEnd(_, _)
QuoteEnd(s, p) == IF p > Len(s) THEN 0 ELSE IF s[p] = QUOTE THEN p ELSE QuoteEnd(s, p + 1)

Fail == [ok |-> FALSE, pos |-> 0, ast |-> <<>>]
Ok(p, a) == [ok |-> TRUE, pos |-> p, ast |-> a]

\* W(len, s, p): optional blanks in lenient mode
W(len, s, p) == IF len THEN SkipWs(s, p) ELSE p

Atomic(len, s, p0) ==
  LET p == W(len, s, p0) IN
  IF At(s, p, QUOTE) /\ QuoteEnd(s, p + 1) > 0
  THEN LET q == QuoteEnd(s, p + 1) IN Ok(q + 1, SubSeq(s, p + 1, q - 1))
  ELSE LET e == AlnumEnd(s, p) IN IF e > p THEN Ok(e, SubSeq(s, p, e - 1)) ELSE Fail

RECURSIVE Formula(_, _, _)

Pair(len, s, p0) ==        \* "(" formula ws "," ws formula ")"
  LET p == W(len, s, p0) IN
  IF ~At(s, p, LP) THEN Fail ELSE
  LET f1 == Formula(len, s, p + 1) IN IF ~f1.ok THEN Fail ELSE
  LET p2 == SkipWs(s, f1.pos) IN IF ~At(s, p2, COMMA) THEN Fail ELSE
  LET f2 == Formula(len, s, SkipWs(s, p2 + 1)) IN IF ~f2.ok THEN Fail ELSE
  LET p3 == W(len, s, f2.pos) IN
  IF At(s, p3, RP) THEN Ok(p3 + 1, <<f1.ast, f2.ast>>) ELSE Fail

Bin(len, s, p, tag, name) ==
  IF Tag(s, p, tag)
  THEN LET r == Pair(len, s, p + Len(tag)) IN IF r.ok THEN Ok(r.pos, <<name, r.ast[1], r.ast[2]>>) ELSE Fail
  ELSE Fail

Unary(len, s, p) ==
  IF Tag(s, p, T_neg) /\ At(s, W(len, s, p + 3), LP)
  THEN LET f == Formula(len, s, W(len, s, p + 3) + 1) IN
       IF f.ok /\ At(s, W(len, s, f.pos), RP) THEN Ok(W(len, s, f.pos) + 1, <<"not", f.ast>>) ELSE Fail
  ELSE Fail

\* "c(v)" / "c(f)" with optional inner blanks in lenient mode
Const(len, s, p) ==
  IF ~len THEN (IF Tag(s, p, T_cv) THEN Ok(p + 4, <<"top">>) ELSE IF Tag(s, p, T_cf) THEN Ok(p + 4, <<"bot">>) ELSE Fail)
  ELSE IF At(s, p, 99) /\ At(s, SkipWs(s, p + 1), LP)
       THEN LET q == SkipWs(s, SkipWs(s, p + 1) + 1) IN
            IF (At(s, q, 118) \/ At(s, q, 102)) /\ At(s, SkipWs(s, q + 1), RP)
            THEN Ok(SkipWs(s, q + 1) + 1, IF s[q] = 118 THEN <<"top">> ELSE <<"bot">>)
            ELSE Fail
       ELSE Fail

Formula(len, s, p0) ==
  LET p == W(len, s, p0) IN
  LET c == Const(len, s, p) IN IF c.ok THEN c ELSE
  LET b1 == Bin(len, s, p, T_and, "and") IN IF b1.ok THEN b1 ELSE
  LET b2 == Bin(len, s, p, T_or, "or") IN IF b2.ok THEN b2 ELSE
  LET b3 == Bin(len, s, p, T_imp, "imp") IN IF b3.ok THEN b3 ELSE
  LET b4 == Bin(len, s, p, T_xor, "xor") IN IF b4.ok THEN b4 ELSE
  LET b5 == Bin(len, s, p, T_iff, "iff") IN IF b5.ok THEN b5 ELSE
  LET u == Unary(len, s, p) IN IF u.ok THEN u ELSE
  LET a == Atomic(len, s, p) IN IF a.ok THEN Ok(a.pos, <<"atom", a.ast>>) ELSE Fail

\* "." multispace0 ; 0 = failure
Term(len, s, p0) == LET p == W(len, s, p0) IN IF At(s, p, DOT) THEN SkipWs(s, p + 1) ELSE 0

Statement(len, s, p0) ==
  LET p == W(len, s, p0) IN
  IF Tag(s, p, T_s) /\ At(s, W(len, s, p + 1), LP)
  THEN LET a == Atomic(len, s, W(len, s, p + 1) + 1) IN
       IF a.ok /\ At(s, W(len, s, a.pos), RP) /\ Term(len, s, W(len, s, a.pos) + 1) > 0
       THEN Ok(Term(len, s, W(len, s, a.pos) + 1), <<"s", a.ast>>) ELSE Fail
  ELSE Fail

Ac(len, s, p0) ==
  LET p == W(len, s, p0) IN
  IF Tag(s, p, T_ac) /\ At(s, W(len, s, p + 2), LP)
  THEN LET a == Atomic(len, s, W(len, s, p + 2) + 1) IN IF ~a.ok THEN Fail ELSE
       LET p2 == SkipWs(s, a.pos) IN IF ~At(s, p2, COMMA) THEN Fail ELSE
       LET f == Formula(len, s, SkipWs(s, p2 + 1)) IN
       IF f.ok /\ At(s, W(len, s, f.pos), RP) /\ Term(len, s, W(len, s, f.pos) + 1) > 0
       THEN Ok(Term(len, s, W(len, s, f.pos) + 1), <<"ac", a.ast, f.ast>>) ELSE Fail
  ELSE Fail

Fact(len, s, p) == LET st == Statement(len, s, p) IN IF st.ok THEN st ELSE Ac(len, s, p)

RECURSIVE Facts(_, _, _, _)
Facts(len, s, p, acc) ==
  LET f == Fact(len, s, p) IN
  IF f.ok THEN Facts(len, s, f.pos, Append(acc, f.ast)) ELSE [pos |-> p, facts |-> acc]

ParseWith(len, s) ==
  LET r == Facts(len, s, 1, <<>>) IN
  IF Len(r.facts) >= 1 /\ r.pos = Len(s) + 1 THEN [ok |-> TRUE, facts |-> r.facts]
                                             ELSE [ok |-> FALSE, facts |-> <<>>]
Parse(s) == ParseWith(FALSE, s)
ParseLenient(s) == ParseWith(TRUE, s)

\* ---- what a parse means
\* statement labels in first-declaration order
RECURSIVE DeclOrder(_, _, _)
DeclOrder(facts, i, acc) ==
  IF i > Len(facts) THEN acc
  ELSE IF facts[i][1] = "s" /\ ~(\E j \in DOMAIN acc : acc[j] = facts[i][2])
       THEN DeclOrder(facts, i + 1, Append(acc, facts[i][2]))
       ELSE DeclOrder(facts, i + 1, acc)
Names(facts) == DeclOrder(facts, 1, <<>>)
Acs(facts) == SelectSeq(facts, LAMBDA f : f[1] = "ac")       \* <<"ac", label, ast>> in file order

\* evaluation with labelled atoms: A is a set of labels
RECURSIVE EvalL(_, _)
EvalL(f, A) ==
  CASE f[1] = "top"  -> TRUE
    [] f[1] = "bot"  -> FALSE
    [] f[1] = "atom" -> f[2] \in A
    [] f[1] = "not"  -> ~EvalL(f[2], A)
    [] f[1] = "and"  -> EvalL(f[2], A) /\ EvalL(f[3], A)
    [] f[1] = "or"   -> EvalL(f[2], A) \/ EvalL(f[3], A)
    [] f[1] = "imp"  -> EvalL(f[2], A) => EvalL(f[3], A)
    [] f[1] = "iff"  -> EvalL(f[2], A) <=> EvalL(f[3], A)
    [] f[1] = "xor"  -> EvalL(f[2], A) # EvalL(f[3], A)

RECURSIVE AtomsOf(_)
AtomsOf(f) == CASE f[1] \in {"top", "bot"} -> {}
                [] f[1] = "atom" -> {f[2]}
                [] f[1] = "not" -> AtomsOf(f[2])
                [] OTHER -> AtomsOf(f[2]) \cup AtomsOf(f[3])

SameFunction(f, g) == LET L == AtomsOf(f) \cup AtomsOf(g) IN \A A \in SUBSET L : EvalL(f, A) = EvalL(g, A)

\* byte-wise (code point) lexicographic order on labels
RECURSIVE LexLeq(_, _)
LexLeq(a, b) == IF a = <<>> THEN TRUE ELSE IF b = <<>> THEN FALSE
                ELSE IF a[1] < b[1] THEN TRUE ELSE IF a[1] > b[1] THEN FALSE
                ELSE LexLeq(Tail(a), Tail(b))
=============================================================================
