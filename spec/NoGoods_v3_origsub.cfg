SPECIFICATION Spec
CONSTANTS V = 3
          FixedFold = TRUE
          FixedSubsume = FALSE
          MaxAdds = 2
          Modes = {"None", "Equiv", "Subsume"}
INVARIANTS TypeOK P1 P2 P3 P4 P5
CHECK_DEADLOCK FALSE
