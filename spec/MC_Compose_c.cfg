SPECIFICATION Spec
CONSTANTS N = 4
  Blocks <- B_c
  Obs <- O_c
INVARIANT Lemma
CHECK_DEADLOCK FALSE
