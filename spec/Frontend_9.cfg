SPECIFICATION Spec
CONSTANTS MaxNodes = 9
INVARIANTS PrefixInv FoundRule Quiescent
PROPERTIES Monotone
CHECK_DEADLOCK FALSE
