SPECIFICATION Spec
CONSTANTS N = 2
          FunSet = "all"
INVARIANTS GroundSound GroundExact ResidualOK AnswersOK
CHECK_DEADLOCK FALSE
