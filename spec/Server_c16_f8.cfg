SPECIFICATION Spec
CONSTANTS Principals = {"A"}
          Accounts = {"alice"}
          PNames = {"P"}
          Codes = {"c1", "c2"}
          BadCodes = {"bad"}
          BoomCodes = {"boom"}
          Strategies = {"S1", "S2"}
          MaxReq = 7
          TempNames = {}
          GenPNames = {}
          FilterOnOwner = TRUE
          FixedF8 = FALSE
          Person <- IdPerson
INVARIANTS EndedNotRunningShipped
CHECK_DEADLOCK FALSE
