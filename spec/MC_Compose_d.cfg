SPECIFICATION Spec
CONSTANTS N = 4
  Blocks <- B_d
  Obs <- O_d
INVARIANT Lemma
CHECK_DEADLOCK FALSE
