------------------------------ MODULE Trace_Iter ------------------------------
(***************************************************************************)
(* Trace validator for the real interpretation iterators (C20).  Raw       *)
(* handles are logged: 0 = false, 1 = true, anything else = an undecided   *)
(* position whose handle the three-valued iterator must keep verbatim.     *)
(***************************************************************************)
EXTENDS Iterators, Json, IOUtils, TLC

Rec == ndJsonDeserialize(IOEnv.TRACE)
VARIABLE l

Pow(b, k) == IF k = 0 THEN 1 ELSE b ^ k
UndPos(v) == { i \in DOMAIN v : v[i] > 1 }
RangeOf(sq) == { sq[i] : i \in DOMAIN sq }
TVraw(v) == [i \in DOMAIN v |-> IF v[i] = 1 THEN "T" ELSE IF v[i] = 0 THEN "F" ELSE "U"]

\* w is a completion (allowU = FALSE) / refinement (allowU = TRUE) of v; decided positions untouched
RefinesRaw(v, w, allowU) ==
  /\ Len(w) = Len(v)
  /\ \A i \in DOMAIN v : IF v[i] <= 1 THEN w[i] = v[i]
                         ELSE w[i] \in (IF allowU THEN {0, 1, v[i]} ELSE {0, 1})

Report(ok, id, what) == ok \/ PrintT(<<"MISMATCH", l, id, "C20", what>>)

Check(r) ==
  LET v == r.vec  k == Cardinality(UndPos(r.vec)) IN
  /\ Report(r.st = "ok", r.id, "status")
  /\ r.st = "ok" =>
     /\ Report(\A i \in DOMAIN r.two : RefinesRaw(v, r.two[i], FALSE), r.id, "two-not-a-completion")
     /\ Report(Cardinality(RangeOf(r.two)) = Len(r.two), r.id, "two-duplicate")
     /\ Report(Len(r.two) = Pow(2, k), r.id, "two-count")                  \* no dup + all completions + 2^k of them = exactly all
     /\ Report(\A i \in DOMAIN r.three : RefinesRaw(v, r.three[i], TRUE), r.id, "three-not-a-refinement")
     /\ Report(Cardinality(RangeOf(r.three)) = Len(r.three), r.id, "three-duplicate")
     /\ Report(Len(r.three) = Pow(3, k), r.id, "three-count")
     /\ Report(Len(r.three) >= 1 /\ r.three[1] = v, r.id, "three-first")
     /\ Report(r.extra2 = 0 /\ r.extra3 = 0, r.id, "items-after-end")
     \* drift: the transcribed odometers predict the emission ORDER
     /\ (k > 5 \/ (Seq2(TVraw(v)) = [i \in DOMAIN r.two |-> TVraw(r.two[i])]
                   /\ Seq3(TVraw(v)) = [i \in DOMAIN r.three |-> TVraw(r.three[i])])
          \/ PrintT(<<"DRIFT", l, r.id, "order">>))

Init == l = 1
Next == /\ l <= Len(Rec) /\ Check(Rec[l]) \in BOOLEAN /\ l' = l + 1
Spec == Init /\ [][Next]_l
Consumed == (TLCGet("stats").diameter - 1 = Len(Rec))
              \/ PrintT(<<"NOTCONSUMED", TLCGet("stats").diameter, Len(Rec)>>)
=============================================================================
