------------------------------ MODULE Trace_Iter ------------------------------
(***************************************************************************)
(* Trace validator for the real interpretation iterators (C20).  Raw       *)
(* handles are logged: 0 = false, 1 = true, anything else = an undecided   *)
(* position whose handle the three-valued iterator must keep verbatim.     *)
(***************************************************************************)
EXTENDS Iterators, Json, IOUtils, TLC

Rec == ndJsonDeserialize(IOEnv.TRACE)
VARIABLE l

Pow(b, k) == IF k = 0 THEN 1 ELSE b ^ k
UndPos(v) == { i \in DOMAIN v : v[i] > 1 }
RangeOf(sq) == { sq[i] : i \in DOMAIN sq }
TVraw(v) == [i \in DOMAIN v |-> IF v[i] = 1 THEN "T" ELSE IF v[i] = 0 THEN "F" ELSE "U"]

\* w is a completion (allowU = FALSE) / refinement (allowU = TRUE) of v; decided positions untouched
RefinesRaw(v, w, allowU) ==
  /\ Len(w) = Len(v)
  /\ \A i \in DOMAIN v : IF v[i] <= 1 THEN w[i] = v[i]
                         ELSE w[i] \in (IF allowU THEN {0, 1, v[i]} ELSE {0, 1})

Report(ok, id, what) == ok \/ PrintT(<<"MISMATCH", l, id, "C20", what>>)

Check(r) ==
  LET v == r.vec  k == Cardinality(UndPos(r.vec)) IN
  /\ Report(r.st = "ok", r.id, "status")
  /\ r.st = "ok" =>
     /\ Report(\A i \in DOMAIN r.two : RefinesRaw(v, r.two[i], FALSE), r.id, "two-not-a-completion")
     /\ Report(Cardinality(RangeOf(r.two)) = Len(r.two), r.id, "two-duplicate")
     /\ Report(Len(r.two) = Pow(2, k), r.id, "two-count")                  \* no dup + all completions + 2^k of them = exactly all
     /\ Report(\A i \in DOMAIN r.three : RefinesRaw(v, r.three[i], TRUE), r.id, "three-not-a-refinement")
     /\ Report(Cardinality(RangeOf(r.three)) = Len(r.three), r.id, "three-duplicate")
     /\ Report(Len(r.three) = Pow(3, k), r.id, "three-count")
     /\ Report(Len(r.three) >= 1 /\ r.three[1] = v, r.id, "three-first")
     /\ Report(r.extra2 = 0 /\ r.extra3 = 0, r.id, "items-after-end")
     \* drift: the transcribed odometers predict the emission ORDER
     /\ (k > 5 \/ (Seq2(TVraw(v)) = [i \in DOMAIN r.two |-> TVraw(r.two[i])]
                   /\ Seq3(TVraw(v)) = [i \in DOMAIN r.three |-> TVraw(r.three[i])])
          \/ PrintT(<<"DRIFT", l, r.id, "order">>))

\* the first n items of the transcribed odometers
RECURSIVE Pre2(_, _, _), Pre3(_, _, _)
Pre2(st, n, acc) == IF n = 0 THEN acc ELSE LET r == Step2(st) IN IF r[2] = None THEN acc ELSE Pre2(r[1], n - 1, Append(acc, r[2]))
Pre3(st, n, acc) == IF n = 0 THEN acc ELSE LET r == Step3(st) IN IF r[2] = None THEN acc ELSE Pre3(r[1], n - 1, Append(acc, r[2]))

\* long vectors (k up to 130 undecided positions): only the first r.take items are drawn; 2^k and 3^k exceed r.take
CheckLong(r) ==
  LET v == r.vec IN
  /\ Report(r.st = "ok", r.id, "status-long-vector")
  /\ r.st = "ok" =>
     /\ Report(Len(r.two) = r.take /\ Len(r.three) = r.take, r.id, "ends-early-on-long-vector")
     /\ Report(\A i \in DOMAIN r.two : RefinesRaw(v, r.two[i], FALSE), r.id, "two-not-a-completion")
     /\ Report(Cardinality(RangeOf(r.two)) = Len(r.two), r.id, "two-duplicate")
     /\ Report(\A i \in DOMAIN r.three : RefinesRaw(v, r.three[i], TRUE), r.id, "three-not-a-refinement")
     /\ Report(Cardinality(RangeOf(r.three)) = Len(r.three), r.id, "three-duplicate")
     /\ Report(Len(r.three) >= 1 /\ r.three[1] = v, r.id, "three-first")
     /\ ((Pre2(Init2(TVraw(v)), r.take, <<>>) = [i \in DOMAIN r.two |-> TVraw(r.two[i])]
          /\ Pre3(Init3(TVraw(v)), r.take, <<>>) = [i \in DOMAIN r.three |-> TVraw(r.three[i])])
          \/ PrintT(<<"DRIFT", l, r.id, "order-long">>))

Init == l = 1
Next == /\ l <= Len(Rec) /\ (IF Rec[l].kind = "iterlong" THEN CheckLong(Rec[l]) ELSE Check(Rec[l])) \in BOOLEAN /\ l' = l + 1
Spec == Init /\ [][Next]_l
Consumed == (TLCGet("stats").diameter - 1 = Len(Rec))
              \/ PrintT(<<"NOTCONSUMED", TLCGet("stats").diameter, Len(Rec)>>)
=============================================================================
