SPECIFICATION Spec
CONSTANTS N = 3
          AdfSetKind = "sample"
          TwoValMode = FALSE
          Contract = TRUE
          FixedFoldC = FALSE
INVARIANTS Exact Safe LockStep StoreSound
VIEW View
CHECK_DEADLOCK FALSE
