SPECIFICATION Spec
CONSTANTS N = 3
          AdfSetKind = "sample"
          TwoValMode = FALSE
          Contract = TRUE
          FixedFoldC = TRUE
INVARIANTS Exact Safe LockStep StoreSound
VIEW View
CHECK_DEADLOCK FALSE
