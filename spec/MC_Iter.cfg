SPECIFICATION FairSpec
CONSTANTS MaxLen = 5
INVARIANTS Safe Done
PROPERTIES Sticky Terminates
CHECK_DEADLOCK FALSE
