------------------------------- MODULE BigBdd -------------------------------
(***************************************************************************)
(* The C06 / C07 / C13 notions for LARGE diagram stores (7-11 variables,   *)
(* hundreds of nodes), where the set-of-sets denotations of RobddOps are   *)
(* too slow.  An assignment is the INTEGER whose bit v is the value of     *)
(* variable v; a Boolean function is a set of such integers; the           *)
(* denotations of all handles of a table are built bottom-up in one pass   *)
(* (children have smaller handles - checked first).  Same definitions as   *)
(* RobddOps, other data representation; Equivalence of the two is itself   *)
(* checked by TLC on every table of the small records (Trace_Bdd!BigAgrees)*)
(***************************************************************************)
EXTENDS Naturals, Sequences, FiniteSets

VBOT == 1000000
VTOP == 1000001

P2(n) == 2 ^ n
AllA(nv) == 0..(P2(nv) - 1)
Bit(A, v) == (A \div P2(v)) % 2 = 1
SetBit(A, v, val) == IF Bit(A, v) = val THEN A ELSE IF val THEN A + P2(v) ELSE A - P2(v)

\* structural half of C06
HN(ns) == 0..(Len(ns) - 1)
ConstOKb(ns) == Len(ns) >= 2 /\ ns[1] = <<VBOT, 0, 0>> /\ ns[2] = <<VTOP, 1, 1>>
Wellformed(ns, nv) ==              \* enough to build the denotations bottom-up
  /\ ConstOKb(ns)
  /\ \A h \in HN(ns) : h > 1 => ns[h + 1][1] \in 0..(nv - 1) /\ ns[h + 1][2] < h /\ ns[h + 1][3] < h
Reducedb(ns) == \A h \in HN(ns) : h > 1 => ns[h + 1][2] # ns[h + 1][3]
Orderedb(ns) == \A h \in HN(ns) : h > 1 =>
     LET n == ns[h + 1] IN (n[2] > 1 => ns[n[2] + 1][1] > n[1]) /\ (n[3] > 1 => ns[n[3] + 1][1] > n[1])
NoDupb(ns) == Cardinality({ ns[i] : i \in DOMAIN ns }) = Len(ns)

\* denotation table: Dseq[h + 1] = the function of handle h
RECURSIVE BuildD(_, _, _)
BuildD(ns, nv, acc) ==
  IF Len(acc) = Len(ns) THEN acc
  ELSE LET h == Len(acc)  n == ns[h + 1]
           d == IF h = 0 THEN {} ELSE IF h = 1 THEN AllA(nv)
                ELSE { A \in AllA(nv) : IF Bit(A, n[1]) THEN A \in acc[n[3] + 1] ELSE A \in acc[n[2] + 1] }
       IN BuildD(ns, nv, Append(acc, d))
DenAll(ns, nv) == BuildD(ns, nv, <<>>)

Canonicalb(D) == Cardinality({ D[i] : i \in DOMAIN D }) = Len(D)

\* C07
SemOpb(op, fa, fb, U) ==
  CASE op = "not" -> U \ fa
    [] op = "and" -> fa \cap fb
    [] op = "or"  -> fa \cup fb
    [] op = "imp" -> (U \ fa) \cup fb
    [] op = "iff" -> { A \in U : (A \in fa) <=> (A \in fb) }
    [] op = "xor" -> { A \in U : (A \in fa) # (A \in fb) }
Cofactorb(f, v, val, U) == { A \in U : SetBit(A, v, val) \in f }
VarFn(v, U) == { A \in U : Bit(A, v) }

\* C13
DepSetb(f, nv) == { v \in 0..(nv - 1) : \E A \in AllA(nv) : ~Bit(A, v) /\ ((A \in f) # ((A + P2(v)) \in f)) }
RECURSIVE PathsB(_, _, _), DepthB(_, _)
\* bottom-up as well: sequences indexed by handle
PathsB(ns, leaf, acc) ==
  IF Len(acc) = Len(ns) THEN acc
  ELSE LET h == Len(acc) IN
       PathsB(ns, leaf, Append(acc, IF h <= 1 THEN (IF h = leaf THEN 1 ELSE 0) ELSE acc[ns[h + 1][2] + 1] + acc[ns[h + 1][3] + 1]))
DepthB(ns, acc) ==
  IF Len(acc) = Len(ns) THEN acc
  ELSE LET h == Len(acc)  a == IF h <= 1 THEN 0 ELSE acc[ns[h + 1][2] + 1]  b == IF h <= 1 THEN 0 ELSE acc[ns[h + 1][3] + 1] IN
       DepthB(ns, Append(acc, IF h <= 1 THEN 0 ELSE 1 + (IF a > b THEN a ELSE b)))
CubeSetb(c, U) == { A \in U : (\A v \in { c[1][i] : i \in DOMAIN c[1] } : ~Bit(A, v)) /\ (\A v \in { c[2][i] : i \in DOMAIN c[2] } : Bit(A, v)) }
=============================================================================
