------------------------------ MODULE Trace_Sem ------------------------------
(***************************************************************************)
(* Trace validator for observations of the real solver (C01-C05).          *)
(* One record = one ADF as presented to the library (ASTs over variable    *)
(* positions) plus every answer the library gave for it on a fresh object. *)
(* TLC recomputes the definitional answers from the ASTs and judges each   *)
(* observed answer.  Acceptance is non-blocking: every record is consumed, *)
(* every mismatch is printed.                                              *)
(***************************************************************************)
EXTENDS AdfCompose, Json, IOUtils, TLC

Rec == ndJsonDeserialize(IOEnv.TRACE)

VARIABLE l

PropOf(c) == CASE c = "grounded" -> "C01"
               [] c = "complete" -> "C02"
               [] c \in {"stable", "prefilter", "rew", "rew_pre"} -> "C03"
               [] c \in {"count_a", "count_b"} -> "C04"
               [] OTHER -> "C05"

\* judged on the OBSERVED answer only; G, CO, ST, TW are the definitional answers
CallOK(call, G, CO, ST, TW) ==
  /\ call.st = "ok"
  /\ CASE call.c = "grounded"    -> call.r = <<G>>
       [] call.c = "complete"    -> /\ ExactlyOnce(call.r, CO)
                                    /\ Len(call.r) >= 1
                                    /\ call.r[1] = G
       [] call.c \in {"twoval_chan", "twoval_chan_b"} -> ExactlyOnce(call.r, TW) /\ call.ch = "disconnected"
       [] call.c \in {"ng_chan", "ng_chan_b"}         -> ExactlyOnce(call.r, ST) /\ call.ch = "disconnected"
       [] OTHER                  -> ExactlyOnce(call.r, ST)

Needs(r, cs) == \E i \in DOMAIN r.calls : r.calls[i].c \in cs

Check(r) ==
  LET n  == r.n
      tt == TTs(r.asts, n)
      G  == Grounded(tt, n)
      CO == Complete(tt, n)
      TW == TwoValDirect(tt, n)
      ST == { v \in TW : IsStable(tt, v, n) }
      nontriv == (G # AllU(n) /\ ~IsTwoValued(G, n)) \/ Cardinality(TW) >= 1
  IN /\ (r.names = r.labels \/ PrintT(<<"MISMATCH", l, r.id, r.prop, "names", "-", "-">>))
     /\ \A i \in DOMAIN r.calls :
          LET call == r.calls[i] IN
          CallOK(call, G, CO, ST, TW)
            \/ PrintT(<<"MISMATCH", l, r.id, PropOf(call.c), call.c, call.b, call.h>>)
     \* real choice trees of the nogood search: every distinct answer over ALL paths must be the exact answer
     /\ \A i \in DOMAIN r.trees :
          LET t == r.trees[i] IN
          (/\ t.st = "ok"
           /\ \A j \in DOMAIN t.results : ExactlyOnce(t.results[j], IF t.c = "tree_twoval" THEN TW ELSE ST))
            \/ PrintT(<<"MISMATCH", l, r.id, "C05", t.c, t.b, t.h>>)
     /\ PrintT(<<"INFO", l, r.id, nontriv, Cardinality(ST), Cardinality(TW)>>)

\* composed frameworks (10-16 statements): same calls, judged by the composition theorem of AdfCompose; the claimed
\* decomposition is verified on the logged ASTs first (a wrong claim is the harness's fault: BADRECORD, never a verdict)
CallOKBig(call, r, bs, G) ==
  LET EO(sel) == ExactlyOnceC(call.r, r.n, r.asts, r.blocks, r.observers, bs, sel) IN
  /\ call.st = "ok"
  /\ CASE call.c = "grounded"    -> call.r = <<G>>
       [] call.c = "complete"    -> EO("co") /\ Len(call.r) >= 1 /\ call.r[1] = G
       [] call.c \in {"twoval_chan", "twoval_chan_b"} -> EO("tw") /\ call.ch = "disconnected"
       [] call.c \in {"ng_chan", "ng_chan_b"}         -> EO("st") /\ call.ch = "disconnected"
       [] OTHER                  -> EO("st")

CheckBig(r) ==
  IF ~ValidDecomp(r.asts, r.n, r.blocks, r.observers) THEN PrintT(<<"BADRECORD", l, r.id, "not a decomposition">>)
  ELSE
  LET bs == IF Needs(r, {"complete"}) THEN BlockSem(r.asts, r.blocks) ELSE BlockSemLight(r.asts, r.blocks)
      G  == GroundedC(r.asts, r.n, r.blocks, r.observers, bs)
      nst == CountC(bs, "st", 1)
      ntw == CountC(bs, "tw", 1)
  IN /\ (r.names = r.labels \/ PrintT(<<"MISMATCH", l, r.id, r.prop, "names", "-", "-">>))
     /\ \A i \in DOMAIN r.calls :
          LET call == r.calls[i] IN
          CallOKBig(call, r, bs, G)
            \/ PrintT(<<"MISMATCH", l, r.id, PropOf(call.c), call.c, call.b, call.h>>)
     /\ PrintT(<<"INFO", l, r.id, (G # AllU(r.n) /\ ~IsTwoValued(G, r.n)) \/ ntw >= 1, nst, ntw>>)

Init == l = 1
Next == /\ l <= Len(Rec)
        /\ (IF Rec[l].kind = "adf" THEN Check(Rec[l])
            ELSE IF Rec[l].kind = "adfbig" THEN CheckBig(Rec[l]) ELSE TRUE) \in BOOLEAN   \* value context: TLC must not split the disjunctions inside
        /\ l' = l + 1
Spec == Init /\ [][Next]_l

Consumed == (TLCGet("stats").diameter - 1 = Len(Rec))
              \/ PrintT(<<"NOTCONSUMED", TLCGet("stats").diameter, Len(Rec)>>)
=============================================================================
