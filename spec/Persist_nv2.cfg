SPECIFICATION Spec
CONSTANTS NV = 2
          VariableList = TRUE
          AdHocCounting = TRUE
          AdHocModels = FALSE
INVARIANTS SameTables CopyOK RebuildExact
VIEW View
CHECK_DEADLOCK FALSE
