SPECIFICATION Spec
CONSTANTS V = 6
          FixedFold = TRUE
          FixedSubsume = TRUE
POSTCONDITION Consumed
CHECK_DEADLOCK FALSE
