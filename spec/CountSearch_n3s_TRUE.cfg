SPECIFICATION Spec
CONSTANTS N = 3
          AdfSetKind = "sample"
          FixedLoop = TRUE
          FixedMore = TRUE
INVARIANTS Exact
CHECK_DEADLOCK FALSE
