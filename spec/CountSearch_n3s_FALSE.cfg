SPECIFICATION Spec
CONSTANTS N = 3
          AdfSetKind = "sample"
          FixedLoop = FALSE
          FixedMore = FALSE
INVARIANTS Exact
CHECK_DEADLOCK FALSE
