---------------------------- MODULE Trace_NoGoods ----------------------------
(***************************************************************************)
(* Trace validator for the real NoGoodStore (C18).  One record = one add   *)
(* sequence (with modes) + observed conclusions / conflicts / closures for *)
(* many partial interpretations + the bucket dump (hook H2).               *)
(* Verdicts: the four clauses of the property, by brute force over the     *)
(* total assignments, on the OBSERVED answers.  Drift: the transcription   *)
(* NoGoodsOps replays the adds and must predict buckets and answers.       *)
(***************************************************************************)
EXTENDS NoGoodsOps, Json, IOUtils, TLC

Rec == ndJsonDeserialize(IOEnv.TRACE)
VARIABLE l

RangeOf(sq) == { sq[i] : i \in DOMAIN sq }
\* Logged positions are REAL positions of a store that may be much wider than the few positions a sequence uses (machine-word
\* and bitmap-container boundaries); the record's `pos` list names the used ones, and everything is judged on their indices.
\* A real position outside the list (a literal nobody wrote) becomes index 0, which no total assignment has: it fails P1 / P4.
IdxIn(pos, p) == IF \E i \in DOMAIN pos : pos[i] = p THEN CHOOSE i \in DOMAIN pos : pos[i] = p ELSE 0
ToPAp(pos, j) == [act |-> { IdxIn(pos, p) : p \in RangeOf(j.act) }, val |-> { IdxIn(pos, p) : p \in RangeOf(j.val) }]

RECURSIVE Replay(_, _, _)
Replay(steps, i, st) == IF i > Len(steps) THEN st
                        ELSE Replay(steps, i + 1, AddNg(st, steps[i].mode, steps[i].add))

Report(ok, id, what, q) == ok \/ PrintT(<<"MISMATCH", l, id, "C18", what, q>>)

Check(r) ==
  LET ToPA(j) == ToPAp(r.pos, j)
      psteps == [i \in DOMAIN r.steps |-> [mode |-> r.steps[i].mode, add |-> ToPA(r.steps[i].add)]]
      added == { psteps[i].add : i \in DOMAIN r.steps }
      hasEmpty == \E ng \in added : ng.act = {}
      model == Replay(psteps, 1, EmptyStore)
      dumpSet == UNION { { ToPA(r.dump[k][j]) : j \in DOMAIN r.dump[k] } : k \in DOMAIN r.dump }
  IN
  /\ \A qi \in DOMAIN r.queries :
       LET q == r.queries[qi]
           I == ToPA(q.i)
           none == q.concl.st = "none"
           c == ToPA(q.concl)
           cl == ToPA(q.closure)
       IN
       \* (1) only forced assignments are concluded (and the interpretation itself is kept)
       /\ Report(none \/ (OnlyForced(added, I, c) /\ I.act \subseteq c.act), r.id, "P1-unforced-conclusion", qi)
       \* (2) conflict only if no total extension avoids all added nogoods
       /\ Report(~none \/ Safe(added, I) = {}, r.id, "P2-spurious-conflict", qi)
       \* (3) conflict whenever the interpretation matches an added nogood
       /\ Report((\E ng \in added : IsViolating(ng, I)) => none, r.id,
                 IF hasEmpty THEN "P3-missed-conflict-emptynogood" ELSE "P3-missed-conflict", qi)
       \* (4) observationally: a total assignment is a conflict iff it is excluded by the added nogoods
       /\ (I.act = 1..r.v) => Report(none = (\E ng \in added : IsViolating(ng, I)), r.id,
                                    IF hasEmpty THEN "P4-excluded-set-emptynogood" ELSE "P4-excluded-set", qi)
       \* closure: same clauses for the iterated conclusions
       /\ Report(q.closure.tag # "inconsistent" \/ Safe(added, I) = {}, r.id, "P5-closure-spurious-conflict", qi)
       /\ Report(q.closure.tag = "inconsistent" \/ OnlyForced(added, I, cl), r.id, "P5-closure-unforced", qi)
       \* drift: the transcription predicts the observed answer
       /\ LET m == Conclusions(model, I) IN
          ((m = NoVal) = none /\ (none \/ m = c)) \/ PrintT(<<"DRIFT", l, r.id, "conclusions", qi>>)
  \* (4) on the real buckets
  /\ Report(Excluded(dumpSet) = Excluded(added), r.id,
            IF hasEmpty THEN "P4-store-excluded-emptynogood" ELSE "P4-store-excluded", 0)
  /\ (StoreSet(model) = dumpSet) \/ PrintT(<<"DRIFT", l, r.id, "buckets", 0>>)

Init == l = 1
Next == /\ l <= Len(Rec)
        /\ (IF Rec[l].kind = "ngstore" THEN Check(Rec[l])
            ELSE PrintT(<<"MISMATCH", l, Rec[l].id, "C18", "panic", 0>>)) \in BOOLEAN
        /\ l' = l + 1
Spec == Init /\ [][Next]_l
Consumed == (TLCGet("stats").diameter - 1 = Len(Rec))
              \/ PrintT(<<"NOTCONSUMED", TLCGet("stats").diameter, Len(Rec)>>)
=============================================================================
