SPECIFICATION Spec
CONSTANTS N = 3
  Blocks <- B_b
  Obs <- O_b
INVARIANT Lemma
CHECK_DEADLOCK FALSE
