SPECIFICATION Spec
CONSTANTS Principals = {"A", "B"}
          Accounts = {"alice", "carol"}
          PNames = {"P"}
          Codes = {"c1"}
          BadCodes = {}
          BoomCodes = {}
          Strategies = {"S"}
          MaxReq = 10
          TempNames = {}
          GenPNames = {}
          FilterOnOwner = TRUE
          FixedF8 = TRUE
          Person <- IdPerson
INVARIANTS NoUnexplainedRead NoUnexplainedEffect NoUnexplainedResult NoUnexplainedLoss ResultsMatchCode EndedNotRunning
CHECK_DEADLOCK FALSE
