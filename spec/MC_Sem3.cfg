SPECIFICATION Spec
INVARIANTS AnswersOK
CHECK_DEADLOCK FALSE
