SPECIFICATION Spec
CONSTANTS N = 2
          AdfSetKind = "all"
          FixedLoop = TRUE
          FixedMore = TRUE
INVARIANTS Exact
CHECK_DEADLOCK FALSE
