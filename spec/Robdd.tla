-------------------------------- MODULE Robdd --------------------------------
(***************************************************************************)
(* The shared diagram store as a state machine: every public operation of  *)
(* lib/src/obdd.rs applied to every tuple of existing handles, in any      *)
(* order, any number of times (memo tables warm or cold).  C06 = the       *)
(* invariants, C07 = the action property StepOK checked on EVERY           *)
(* transition.                                                             *)
(***************************************************************************)
EXTENDS RobddOps

CONSTANTS NV,          \* number of diagram variables 0..NV-1
          MaxNodes     \* state constraint for NV >= 3 (0 = unconstrained)

VARIABLES S, lo        \* lo = the last operation [op, a, b, v, val, r]

vars == <<S, lo>>

NoOp == [op |-> "none", a |-> 0, b |-> 0, v |-> 0, val |-> FALSE, r |-> 0]
Init == S = InitStore /\ lo = NoOp

Do(op, a, b, v, val) ==
  LET x == Apply(S, op, a, b, v, val) IN
  /\ S' = x.S
  /\ lo' = [op |-> op, a |-> a, b |-> b, v |-> v, val |-> val, r |-> x.r]

Next ==
  \/ \E v \in 0..(NV - 1) : Do("var", 0, 0, v, FALSE)
  \/ \E a \in Handles(S) : Do("not", a, 0, 0, FALSE)
  \/ \E a, b \in Handles(S), op \in {"and", "or", "imp", "iff", "xor"} : Do(op, a, b, 0, FALSE)
  \/ \E a \in Handles(S), v \in 0..(NV - 1), val \in BOOLEAN : Do("restrict", a, 0, v, val)

Spec == Init /\ [][Next]_vars

Bound == MaxNodes = 0 \/ Size(S) <= MaxNodes

\* ---- C06
Inv == /\ TableOK(S.nodes, NV)
       /\ UniqOK(S)
       /\ CachesOK(S, NV)
       /\ DepsOK(S, NV)
       /\ CountsOK(S, NV)
TopBotOK == \A h \in Handles(S) : (h = TOP <=> Den(S, h, NV) = Universe(NV)) /\ (h = BOT <=> Den(S, h, NV) = {})

\* ---- C07: the result denotes the named function of the operands' functions; no issued handle changes meaning
StepOK ==
  LET r == lo'  U == Universe(NV) IN
  /\ IsPrefix(S.nodes, S'.nodes)
  /\ r.r \in Handles(S')
  /\ CASE r.op = "var"      -> Den(S', r.r, NV) = { A \in U : r.v \in A }
       [] r.op = "restrict" -> Den(S', r.r, NV) = Cofactor(Den(S, r.a, NV), r.v, r.val, U)
       [] r.op = "none"     -> TRUE
       [] OTHER             -> Den(S', r.r, NV) = SemOp(r.op, Den(S, r.a, NV), Den(S, r.b, NV), U)
StepProp == [][StepOK]_vars

\* quotient by handle renumbering and memo contents: the set of functions present in the table
View == { Den(S, h, NV) : h \in Handles(S) }
=============================================================================
