SPECIFICATION Spec
CONSTANTS VariableList = TRUE
          AdHocCounting = TRUE
          AdHocModels = TRUE
POSTCONDITION Consumed
CHECK_DEADLOCK FALSE
