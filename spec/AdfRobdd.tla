------------------------------ MODULE AdfRobdd ------------------------------
(***************************************************************************)
(* An "API session" on ONE Adf object (C11 on the model side): the         *)
(* semantics algorithms of lib/src/adf.rs transcribed ON THE STORE MODEL   *)
(* (RobddOps) - every Bdd::restrict call threads the shared node table and *)
(* its memo tables in the code's order, including the short-circuit of     *)
(* Iterator::all in the complete filter - and any sequence of public calls *)
(* (grounded, complete, stable, extra formulas on the shared diagram) on   *)
(* one object.  Checked: every answer is the specified answer, a function  *)
(* of the ADF alone (history independence = cache transparency + handle    *)
(* stability), adf.ac is never modified, and the store invariants persist. *)
(***************************************************************************)
EXTENDS AdfRobddOps, AdfSem

CONSTANTS N,          \* statements = diagram variables 0..N-1
          MaxCalls

\* canonical construction of a Boolean function over variables 0..N-1 (what a bridge import does: bottom-up through Bdd::node)
Assign0 == SUBSET (0..(N - 1))
RECURSIVE BuildF(_, _, _)
BuildF(S, f, v) ==            \* f: set of assignments over variables v..N-1 extended arbitrarily; returns handle of f
  IF v = N THEN R(S, IF f = {} THEN 0 ELSE 1)
  ELSE LET lo == BuildF(S, { A \in f : v \notin A }, v + 1)
           hi == BuildF(lo.S, { A \ {v} : A \in { B \in f : v \in B } }, v + 1) IN
       MkNode(hi.S, v, lo.r, hi.r)

(******************************* the session ********************************)
VARIABLES S, ac, tt, ncalls, lastKind, lastAns

vars == <<S, ac, tt, ncalls, lastKind, lastAns>>

\* Boolean functions as sets of assignments over 0..N-1 here, over 1..N in AdfSem: shift
Shift(f) == { { v + 1 : v \in A } : A \in f }

RECURSIVE BuildAll(_, _, _, _)
BuildAll(S0, fs, i, acc) == IF i > N THEN R(S0, acc)
                            ELSE LET x == BuildF(S0, fs[i], 0) IN BuildAll(x.S, fs, i + 1, Append(acc, x.r))

Init == \E fs \in [1..N -> SUBSET Assign0] :
          LET b == BuildAll(InitStore, fs, 1, <<>>) IN
          /\ S = b.S /\ ac = b.r /\ tt = MkSeq([i \in 1..N |-> Shift(fs[i])], 1, N)
          /\ ncalls = 0 /\ lastKind = "none" /\ lastAns = <<>>

Call(kind) ==
  /\ ncalls < MaxCalls /\ ncalls' = ncalls + 1 /\ lastKind' = kind
  /\ LET x == CASE kind = "grounded" -> LET g == GroundedInternalR(S, ac) IN R(g.S, <<g.r>>)
                [] kind = "complete" -> CompleteR(S, ac)
                [] kind = "stable"   -> StableR(S, ac)
                [] kind = "prefilter" -> PrefilterR(S, ac)
     IN S' = x.S /\ lastAns' = x.r
  /\ UNCHANGED <<ac, tt>>

\* an extra formula built on the shared diagram between the calls
Extra == /\ ncalls < MaxCalls /\ ncalls' = ncalls + 1 /\ lastKind' = "extra"
         /\ \E a, b \in Handles(S), op \in {"and", "xor", "imp"} :
              S' = Apply(S, op, a, b, 0, FALSE).S
         /\ lastAns' = <<>> /\ UNCHANGED <<ac, tt>>

Next == Call("grounded") \/ Call("complete") \/ Call("stable") \/ Call("prefilter") \/ Extra
Spec == Init /\ [][Next]_vars

\* ---- properties
\* the answer after ANY history is the specified answer: a function of the ADF alone
AnswerOK ==
  LET tvs == [k \in DOMAIN lastAns |-> TVseq(lastAns[k])] IN
  CASE lastKind = "grounded" -> tvs = <<Grounded(tt, N)>>
    [] lastKind = "complete" -> ExactlyOnce(tvs, Complete(tt, N)) /\ tvs[1] = Grounded(tt, N)
    [] lastKind \in {"stable", "prefilter"} -> ExactlyOnce(tvs, Stable(tt, N))
    [] OTHER -> TRUE
\* residual handles of undecided positions denote the acceptance condition restricted by the decided statements
ResidualOK ==
  lastKind = "grounded" =>
    LET g == lastAns[1]  G == Grounded(tt, N)
        D == { i - 1 : i \in { j \in 1..N : G[j] # "U" } }  T == { i - 1 : i \in { j \in 1..N : G[j] = "T" } } IN
    \A i \in 1..N : Den(S, g[i], N) = { A \in Universe(N) : ((A \ D) \cup T) \in Den(S, ac[i], N) }
\* handles issued for the acceptance conditions keep their meaning; the store stays canonical; memo tables stay right
StoreOK == /\ TableOK(S.nodes, N) /\ UniqOK(S) /\ CachesOK(S, N)
           /\ \A i \in 1..N : Shift(Den(S, ac[i], N)) = tt[i]

\* quotient: the ADF, the set of functions in the table, what was last asked
View == << tt, { Den(S, h, N) : h \in Handles(S) }, lastKind, [k \in DOMAIN lastAns |-> TVseq(lastAns[k])], ncalls >>
=============================================================================
