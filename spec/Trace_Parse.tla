------------------------------ MODULE Trace_Parse ------------------------------
(***************************************************************************)
(* Trace validator for the real parser (C08).  The text is logged as code  *)
(* points; TLC runs its own recogniser of the documented grammar on it.    *)
(*   strict recogniser accepts              => MUST_ACCEPT                 *)
(*   even the lenient recogniser rejects    => MUST_REJECT                 *)
(*   otherwise (blanks in undocumented places) => DONT_CARE                *)
(* MUST_ACCEPT: accepted, labels verbatim, statements in first-declaration *)
(* order, the i-th parsed formula denotes the i-th written formula, and    *)
(* (for semantically well-formed files) the natively compiled diagram of   *)
(* every statement denotes ITS OWN written condition.                      *)
(* MUST_REJECT: an error (no panic), and the CLI in all three modes exits  *)
(* non-zero without printing anything.                                     *)
(***************************************************************************)
EXTENDS AdfSyntax, Integers, Json, IOUtils, TLC

Rec == ndJsonDeserialize(IOEnv.TRACE)
VARIABLE l

Report(ok, id, what) == ok \/ PrintT(<<"MISMATCH", l, id, "C08", what>>)
RangeOf(sq) == { sq[i] : i \in DOMAIN sq }

\* walk a logged node table with labelled variables
RECURSIVE WalkL(_, _, _, _)
WalkL(ns, names, h, A) == IF h = 1 THEN TRUE ELSE IF h = 0 THEN FALSE
                          ELSE LET n == ns[h + 1] IN
                               WalkL(ns, names, IF names[n[1] + 1] \in A THEN n[3] ELSE n[2], A)

\* every ac names a declared statement, every atom is declared, every statement has exactly one ac
WellFormed(facts) ==
  LET ns == RangeOf(Names(facts))  acs == Acs(facts) IN
  /\ \A i \in DOMAIN acs : acs[i][2] \in ns /\ AtomsOf(acs[i][3]) \subseteq ns
  /\ \A n \in ns : Cardinality({ i \in DOMAIN acs : acs[i][2] = n }) = 1

Check(r) ==
  LET strict  == Parse(r.cp)
      lenient == ParseLenient(r.cp)
      class == IF strict.ok THEN "MUST_ACCEPT" ELSE IF ~lenient.ok THEN "MUST_REJECT" ELSE "DONT_CARE"
  IN
  /\ PrintT(<<"INFO", l, r.id, class, r.verdict>>)
  /\ class = "MUST_ACCEPT" =>
       LET names == Names(strict.facts)  acs == Acs(strict.facts) IN
       /\ Report(r.verdict = "ok", r.id, "documented-text-not-accepted")
       /\ r.verdict = "ok" =>
            /\ Report(r.names = names, r.id, "labels-or-declaration-order")
            /\ Report(\A i \in DOMAIN r.dict : r.dict[i] = i - 1, r.id, "dictionary")
            /\ Report(Len(r.formulas) = Len(acs) /\ \A i \in DOMAIN acs : SameFunction(r.formulas[i], acs[i][3]), r.id, "formula-meaning")
            /\ ((Len(r.formulas) = Len(acs) /\ \A i \in DOMAIN acs : r.formulas[i] = acs[i][3]) \/ PrintT(<<"DRIFT", l, r.id, "ast-shape">>))
            /\ WellFormed(strict.facts) =>
                 /\ Report(r.native.st = "ok", r.id, "native-compile-failed")
                 /\ r.native.st = "ok" =>
                      /\ Report(r.native.names = names, r.id, "native-ordering")
                      /\ Report(\A p \in DOMAIN names :
                                   LET a == acs[CHOOSE i \in DOMAIN acs : acs[i][2] = names[p]] IN
                                   \A A \in SUBSET RangeOf(names) : WalkL(r.native.nodes, names, r.native.ac[p], A) = EvalL(a[3], A),
                                r.id, "statement-compiled-from-foreign-or-wrong-formula")
  /\ class = "MUST_REJECT" =>
       /\ Report(r.verdict = "err", r.id, "malformed-text-not-rejected")
       /\ Report(\A i \in DOMAIN r.cli : r.cli[i].exit # 0 /\ r.cli[i].exit # -99 /\ r.cli[i].stdout = <<>>, r.id, "cli-answers-malformed-text")

Init == l = 1
Next == /\ l <= Len(Rec) /\ Check(Rec[l]) \in BOOLEAN /\ l' = l + 1
Spec == Init /\ [][Next]_l
Consumed == (TLCGet("stats").diameter - 1 = Len(Rec))
              \/ PrintT(<<"NOTCONSUMED", TLCGet("stats").diameter, Len(Rec)>>)
=============================================================================
