SPECIFICATION TraceSpec
CONSTANTS N = 2
          AdfSetKind = "all"
          TwoValMode = FALSE
          Contract = TRUE
          FixedFoldC = TRUE
INVARIANTS AtEnd
CHECK_DEADLOCK FALSE
