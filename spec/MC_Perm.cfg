SPECIFICATION Spec
CONSTANTS N = 2
          FunSet = "all"
INVARIANTS Commutes
CHECK_DEADLOCK FALSE
