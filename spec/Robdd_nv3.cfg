SPECIFICATION Spec
CONSTANTS NV = 3
          MaxNodes = 9
          VariableList = TRUE
          AdHocCounting = TRUE
          AdHocModels = FALSE
INVARIANTS Inv TopBotOK
PROPERTIES StepProp
CONSTRAINT Bound
VIEW View
CHECK_DEADLOCK FALSE
