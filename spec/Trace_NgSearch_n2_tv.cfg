SPECIFICATION TraceSpec
CONSTANTS N = 2
          AdfSetKind = "all"
          TwoValMode = TRUE
          Contract = TRUE
          FixedFoldC = TRUE
INVARIANTS AtEnd
CHECK_DEADLOCK FALSE
