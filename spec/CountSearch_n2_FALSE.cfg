SPECIFICATION Spec
CONSTANTS N = 2
          AdfSetKind = "all"
          FixedLoop = FALSE
          FixedMore = FALSE
INVARIANTS Exact
CHECK_DEADLOCK FALSE
