"""Shared machinery of the /verif checks: builds, TLC runs (model checking and sharded trace
validation), known-findings matching, evidence and replay files.

Exit status policy (DESIGN.md section 4): 0 = property held on everything explored,
1 = VIOLATION (a property-level predicate evaluated by TLC on an observation of real code is false
and the case is not a listed known finding), 2 = tool trouble (never a verdict)."""
import json, os, re, shutil, subprocess, sys, time, hashlib, tempfile
from concurrent.futures import ThreadPoolExecutor

VERIF = os.path.dirname(os.path.dirname(os.path.abspath(__file__)))
SPEC = os.path.join(VERIF, "spec")
HARNESS = os.path.join(VERIF, "harness")
WORK = os.path.join(VERIF, "work")
REPLAYS = os.path.join(VERIF, "replays")
EVIDENCE = os.path.join(VERIF, "evidence")
REPO = "/repo"
KNOWN = os.path.join(VERIF, "KNOWN_FINDINGS.json")

SEED = int(os.environ.get("VERIF_SEED", "1") or "1")


class ToolError(Exception):
    pass


class CodeCrash(Exception):
    """the code under test aborted the harness process (stack overflow, abort): reported as a violation"""
    pass


def log(*a):
    print("[check]", *a, file=sys.stderr, flush=True)


def run(cmd, **kw):
    return subprocess.run(cmd, stdout=subprocess.PIPE, stderr=subprocess.STDOUT, text=True, **kw)


# ---------------------------------------------------------------- builds
def cargo_env():
    env = dict(os.environ)
    env["CARGO_NET_OFFLINE"] = "true"
    return env


def build_harness(features=None, target_dir=None):
    """Build the harness (path dependency on /repo/lib => rebuilt from /repo's working tree,
    cfg adf_obdd_verif on via harness/.cargo/config.toml). Returns path of the binary."""
    cmd = ["cargo", "build", "--offline", "--quiet"]
    tdir = os.path.join(HARNESS, "target")
    if features is not None:
        cmd += ["--no-default-features", "--features", ",".join(features) if features else ""]
        if not features:
            cmd = ["cargo", "build", "--offline", "--quiet", "--no-default-features"]
    if target_dir:
        cmd += ["--target-dir", target_dir]
        tdir = target_dir
    t0 = time.time()
    p = run(cmd, cwd=HARNESS, env=cargo_env())
    if p.returncode != 0:
        errs = "\n".join([l for l in p.stdout.splitlines() if "error" in l or "-->" in l][:40])
        raise ToolError("harness build failed:\n" + errs + "\n" + p.stdout[-2000:])
    log("harness built in %.1fs" % (time.time() - t0))
    return os.path.join(tdir, "debug", "adfv")


REPO_TARGET = os.path.join(VERIF, "target-repo")


def build_repo_bins(packages=("adf-bdd-bin",), extra=(), target_dir=None):
    """Build CLI / server binaries from /repo's working tree into /verif/target-repo (or target_dir)."""
    tgt = target_dir or REPO_TARGET
    cmd = ["cargo", "build", "--offline", "--quiet", "--target-dir", tgt]
    for p in packages:
        cmd += ["-p", p]
    cmd += list(extra)
    t0 = time.time()
    p = run(cmd, cwd=REPO, env=cargo_env())
    if p.returncode != 0:
        raise ToolError("repo build failed:\n" + p.stdout[-3000:])
    log("repo binaries built in %.1fs" % (time.time() - t0))
    return os.path.join(tgt, "debug")


def run_harness(binary, args, timeout=3600, env_extra=None):
    env = dict(os.environ)
    env["VERIF_SEED"] = str(SEED)
    os.makedirs(WORK, exist_ok=True)
    crumb = os.path.join(WORK, "crumb_%d.json" % os.getpid())
    if os.path.exists(crumb):
        os.remove(crumb)
    env["VERIF_CRUMB"] = crumb
    if env_extra:
        env.update(env_extra)
    t0 = time.time()
    def launch():
        try:
            return subprocess.run([binary] + args, stdout=subprocess.PIPE, stderr=subprocess.PIPE, text=True,
                                  timeout=timeout, env=env, cwd=VERIF)
        except subprocess.TimeoutExpired:
            raise ToolError("harness timed out: " + " ".join(args))
    p = launch()
    if p.returncode < 0 or p.returncode in (134, 139):
        # A violation must be reproducible from its replay file: the workload is a function of the seed, so the same command is run
        # once more. A crash of the code under test (stack overflow, abort) comes back; a death of the harness process that does not
        # (seen once: SIGSEGV inside libc's thread bookkeeping on a heavily overloaded machine) is not attributed to the code under test.
        first = p
        p = launch()
        if not (p.returncode < 0 or p.returncode in (134, 139)):
            log("harness %s died with signal %d once and ran to completion when repeated with the same seed: not reproducible, not a verdict" %
                (args[0], first.returncode))
    if p.returncode < 0 or p.returncode in (134, 139):
        # killed by a signal (abort / stack overflow) while executing code under test: that is data, not tool trouble
        e = CodeCrash("harness %s killed by signal %d while running the code under test\n%s" %
                      (" ".join(args), p.returncode, (p.stderr or "")[-1500:]))
        try:
            e.case = json.load(open(crumb))          # the case that was running when the process died
        except Exception:
            e.case = None
        raise e
    if p.returncode != 0:
        raise ToolError("harness failed (%d): %s\n%s" % (p.returncode, " ".join(args), (p.stderr or "")[-2000:]))
    if os.path.exists(crumb):
        os.remove(crumb)
    log("harness %s: %.1fs %s" % (args[0], time.time() - t0, (p.stderr or "").strip().splitlines()[-1:] ))
    return p


# ---------------------------------------------------------------- TLC
TLC_JAR = "/opt/veriftools/tla/tla2tools.jar"


def _tlc_cmd():
    return ["tlc"]


def parse_tlc_tuple(line):
    """<<"MISMATCH", 3, "id", TRUE>> -> ["MISMATCH", 3, "id", true]"""
    s = line.strip()
    s = s.replace("<<", "[").replace(">>", "]")
    s = re.sub(r"\bTRUE\b", "true", s)
    s = re.sub(r"\bFALSE\b", "false", s)
    try:
        return json.loads(s)
    except Exception:
        return None


def tlc_tuples(out):
    """All tuples TLC printed with PrintT; TLC wraps long values over several lines, so lines are joined until the
    brackets balance."""
    res, buf = [], None
    for line in out.splitlines():
        if buf is None:
            if line.startswith("<<"):
                buf = line
            else:
                continue
        else:
            buf += " " + line.strip()
        if buf.count("<<") <= buf.count(">>"):
            t = parse_tlc_tuple(buf)
            if t is not None:
                res.append(t)
            buf = None
        elif len(buf) > 20000:
            buf = None
    return res


FINAL_RE = re.compile(r"(\d+) states generated, (\d+) distinct states found, (\d+) states left on queue")
DEPTH_RE = re.compile(r"The depth of the complete state graph search is (\d+)")


def tlaps_proof(module, timeout=900):
    """Check spec/proofs/<module>.tla with the TLA+ proof system (model side only: independent of /repo).
    The proved module EXTENDS the spec that TLC checks, so the theorem is about the very same actions."""
    d = os.path.join(WORK, "tlaps_%s_%d" % (module, os.getpid()))
    shutil.rmtree(d, ignore_errors=True)
    os.makedirs(d, exist_ok=True)
    shutil.copy(os.path.join(SPEC, "proofs", module + ".tla"), d)
    for f in os.listdir(SPEC):
        if f.endswith(".tla"):
            shutil.copy(os.path.join(SPEC, f), d)
    t0 = time.time()
    p = run(["timeout", str(timeout), "tlapm", "--threads", "8", "-I", "/opt/veriftools/tlapm/lib/tlapm/stdlib", module + ".tla"], cwd=d)
    wall = time.time() - t0
    out = (p.stdout or "") + (getattr(p, "stderr", "") or "")
    shutil.rmtree(d, ignore_errors=True)
    m = re.search(r"All (\d+) obligations proved", out)
    if not m:
        raise ToolError("tlapm did not prove %s: %s" % (module, out[-1500:]))
    return {"module": module, "obligations": int(m.group(1)), "wall_s": round(wall, 1)}


def tlc_mc(module, cfg, workers=8, timeout=900, xmx="8g", env_extra=None, simulate=None, tag=None,
           extra_args=(), allow_timeout=False):
    """Model-check spec/<module>.tla with spec/<cfg>. Returns dict with counts, printed tuples,
    'ok' (no invariant / property violation, no error)."""
    tag = tag or cfg.replace(".cfg", "")
    meta = os.path.join(WORK, "mc_" + tag + "_%d" % os.getpid())
    shutil.rmtree(meta, ignore_errors=True)
    os.makedirs(meta, exist_ok=True)
    env = dict(os.environ)
    env["JAVA_TOOL_OPTIONS"] = "-Xss512m -Xmx%s" % xmx
    if env_extra:
        env.update(env_extra)
    cmd = ["timeout", str(timeout)] + _tlc_cmd() + ["-workers", str(workers), "-metadir", meta, "-cleanup",
                                                    "-noGenerateSpecTE", "-config", cfg]
    if simulate:
        cmd += ["-simulate", simulate]
    cmd += list(extra_args)
    cmd += [module + ".tla"]
    t0 = time.time()
    p = run(cmd, cwd=SPEC, env=env)
    wall = time.time() - t0
    shutil.rmtree(meta, ignore_errors=True)
    out = p.stdout
    res = {"cfg": tag, "wall_s": round(wall, 1), "distinct": 0, "generated": 0, "depth": 0, "tuples": [],
           "ok": False, "violation": None, "raw_tail": out[-3000:], "rc": p.returncode}
    for line in out.splitlines():
        m = FINAL_RE.search(line)
        if m:
            res["generated"], res["distinct"] = int(m.group(1)), int(m.group(2))
        m = DEPTH_RE.search(line)
        if m:
            res["depth"] = int(m.group(1))
        if line.startswith("Error: Invariant") or "is violated" in line:
            res["violation"] = line.strip()
    res["tuples"] = tlc_tuples(out)
    if simulate:
        # simulation mode prints a different summary
        m = re.search(r"(\d+) states checked", out)
        if m:
            res["generated"] = int(m.group(1))
            res["distinct"] = max(res["distinct"], 1)
    if p.returncode == 124:
        res["timeout"] = True
        # a best-effort run: invariants were evaluated on every state generated so far (TLC checks them as states are found)
        pr = re.findall(r"Progress\(\d+\) at [^:]+:[^:]+:[^:]+: ([\d,]+) states generated \([^)]*\), ([\d,]+) distinct states found", out)
        if pr:
            res["generated"], res["distinct"] = int(pr[-1][0].replace(",", "")), int(pr[-1][1].replace(",", ""))
    res["ok"] = (p.returncode == 0 and res["violation"] is None and "Error:" not in out)
    if allow_timeout and p.returncode == 124 and res["violation"] is None and "Error:" not in out and res["distinct"] > 0:
        res["ok"] = True
        res["cfg"] = tag + " (stopped by the time limit after %d states: partial, no violation so far)" % res["distinct"]
    log("TLC MC %s: %d distinct / %d generated, depth %d, %.1fs, ok=%s" %
        (tag, res["distinct"], res["generated"], res["depth"], wall, res["ok"]))
    return res


def require_mc(res, what=None):
    """A failing model-checking run on the specification alone is tool/spec trouble, not a verdict on the code."""
    if not res["ok"]:
        raise ToolError("TLC model checking run %s failed (%s):\n%s" % (res["cfg"], res.get("violation"), res["raw_tail"]))
    return res


def _tlc_trace_one(module, cfg, shard_path, idx, xmx, timeout):
    meta = os.path.join(WORK, "tr_%s_%d_%d" % (module, os.getpid(), idx))
    shutil.rmtree(meta, ignore_errors=True)
    os.makedirs(meta, exist_ok=True)
    env = dict(os.environ)
    env["JAVA_TOOL_OPTIONS"] = "-Xss512m -Xms256m -Xmx%s -XX:ParallelGCThreads=1 -XX:CICompilerCount=2 -Dtlc2.tool.queue.IStateQueue=StateDeque" % xmx
    env["TRACE"] = shard_path
    cmd = ["timeout", str(timeout)] + _tlc_cmd() + ["-workers", "1", "-metadir", meta, "-cleanup", "-noGenerateSpecTE",
                                                    "-config", cfg, module + ".tla"]
    p = run(cmd, cwd=SPEC, env=env)
    shutil.rmtree(meta, ignore_errors=True)
    return p


def tlc_trace(module, trace_path, shards=12, xmx="3g", timeout=1800, cfg=None, min_per_shard=40, boundary=None):
    """Validate an ndjson trace with spec/<module>.tla (non-blocking acceptance). Returns
    dict(records, consumed(bool), tuples=[(global_line, tuple)], states, transitions)."""
    cfg = cfg or (module + ".cfg")
    with open(trace_path) as f:
        lines = [l for l in f if l.strip()]
    n = len(lines)
    if n == 0:
        raise ToolError("empty trace " + trace_path)
    k = max(1, min(shards, n // min_per_shard if n >= min_per_shard else 1))
    os.makedirs(WORK, exist_ok=True)
    paths, offsets = [], []
    per = (n + k - 1) // k
    # shard starts: multiples of `per`, moved forward to the next line at which a shard may start
    starts = [0]
    for i in range(1, k):
        j = max(i * per, starts[-1] + 1)
        while j < n and boundary is not None and not boundary(lines[j]):
            j += 1
        if j < n and j > starts[-1]:
            starts.append(j)
    starts.append(n)
    for i in range(len(starts) - 1):
        chunk = lines[starts[i]:starts[i + 1]]
        if not chunk:
            continue
        sp = os.path.join(WORK, "shard_%s_%d_%d.ndjson" % (module, os.getpid(), i))
        with open(sp, "w") as f:
            f.writelines(chunk)
        paths.append(sp)
        offsets.append(starts[i])
    t0 = time.time()
    with ThreadPoolExecutor(max_workers=len(paths)) as ex:
        procs = list(ex.map(lambda a: _tlc_trace_one(module, cfg, a[1], a[0], xmx, timeout), enumerate(paths)))
    wall = time.time() - t0
    tuples, states, trans = [], 0, 0
    consumed = True
    for i, p in enumerate(procs):
        out = p.stdout
        m = None
        for line in out.splitlines():
            mm = FINAL_RE.search(line)
            if mm:
                m = mm
        for t in tlc_tuples(out):
            if len(t) > 1 and isinstance(t[1], int) and t[0] in ("MISMATCH", "INFO", "KNOWN", "DRIFT", "DONTCARE", "FOLLOWED", "SAME"):
                tuples.append((offsets[i] + t[1], t))
            else:
                tuples.append((None, t))
        if p.returncode != 0 or m is None or "NOTCONSUMED" in out or "Error:" in out:
            if consumed:
                log("trace shard %d of %s: rc=%d\n%s" % (i, module, p.returncode, out[-1800:]))
            else:
                log("trace shard %d of %s: rc=%d (same kind of failure as above?)" % (i, module, p.returncode))
            consumed = False
        if m:
            trans += int(m.group(1))
            states += int(m.group(2))
    for sp in paths:
        try:
            os.remove(sp)
        except OSError:
            pass
    log("TLC trace %s: %d records in %d shards, %.1fs, consumed=%s" % (module, n, len(paths), wall, consumed))
    if not consumed and not any(t[0] == "MISMATCH" for (_, t) in tuples):
        raise ToolError("trace validation of %s did not consume the whole trace (TLC error / timeout)" % trace_path)
    # (a MISMATCH printed before a later TLC evaluation error is still a sound verdict on the record it names)
    return {"records": n, "lines": lines, "tuples": tuples, "states": states, "transitions": trans, "wall_s": round(wall, 1),
            "consumed": consumed}


# ---------------------------------------------------------------- known findings
def load_known():
    try:
        with open(KNOWN) as f:
            return json.load(f)
    except FileNotFoundError:
        return {"findings": [], "fixed": []}


def known_match(prop, sig):
    """sig: dict describing an observed violation (structured). An entry of KNOWN_FINDINGS.json matches
    if it is for the same finding id and every key of its 'signature' equals the observed one."""
    for f in load_known().get("findings", []):
        if f.get("property") != prop and prop not in f.get("also_seen_via", []):
            continue
        s = f.get("signature", {})
        if all(sig.get(k) == v for k, v in s.items()):
            return f
    return None


# ---------------------------------------------------------------- results
class Result:
    def __init__(self, prop, tier):
        self.prop = prop
        self.tier = tier
        self.t0 = time.time()
        self.violations = []       # list of (replay_path, description)
        self.known_hits = []
        self.mc_runs = []
        self.states = 0
        self.transitions = 0
        self.traces = 0
        self.evaluations = 0
        self.distinct = set()
        self.samples = []
        self.extra = {}
        self.rule = ""
        self.assumptions = []
        self.exhaustive = False
        self.drift = []
        self.incomplete = False

    def add_mc(self, res):
        self.mc_runs.append({k: res[k] for k in ("cfg", "distinct", "generated", "depth", "wall_s")})
        self.states += res["distinct"]
        self.transitions += res["generated"]

    def add_trace(self, tr):
        if not tr.get("consumed", True):
            self.incomplete = True
        self.states += tr["states"]
        self.transitions += tr["transitions"]
        self.traces += tr["records"]

    def violation(self, case_id, payload, what):
        d = os.path.join(REPLAYS, self.prop)
        os.makedirs(d, exist_ok=True)
        safe = re.sub(r"[^A-Za-z0-9_.-]", "_", str(case_id))[:80]
        path = os.path.join(d, safe + ".json")
        payload = dict(payload, seed=SEED, tier=self.tier)
        with open(path, "w") as f:
            json.dump(payload, f, indent=1)
        self.violations.append((path, what))

    def known(self, finding, what):
        self.known_hits.append((finding.get("id", "?"), what))

    def finish(self):
        if self.incomplete and not self.violations:
            # part of a trace was not validated (TLC error in a shard): never report that as "held"
            raise ToolError("trace validation incomplete: a TLC shard stopped with an error and nothing it had reported is a violation")
        wall = time.time() - self.t0
        seen = set()
        for fid, what in self.known_hits:
            if fid in seen:
                continue
            seen.add(fid)
            print("KNOWN-FINDING: property=%s %s %s" % (self.prop, fid, what))
        os.makedirs(EVIDENCE, exist_ok=True)
        cov = {
            "states": max(self.states, 0),
            "transitions": max(self.transitions, 0),
            "traces_validated_against_impl": self.traces,
            "samples": self.samples[:6] if self.samples else [],
            "evaluations": self.evaluations,
            "distinct_nontrivial": len(self.distinct),
            "rule": self.rule,
            "exhaustive": self.exhaustive,
            "tlc_runs": self.mc_runs,
            "known_findings_hit": sorted(seen),
            "drift": self.drift[:10],
        }
        cov.update(self.extra)
        ev = {"property_id": self.prop, "tier": self.tier, "seed": SEED, "level": "model_checking",
              "coverage": cov, "assumptions": self.assumptions, "wall_s": round(wall, 1),
              "violations": len(self.violations)}
        with open(os.path.join(EVIDENCE, self.prop + ".json"), "w") as f:
            json.dump(ev, f, indent=1)
        if self.violations:
            shown = set()
            for path, what in self.violations[:50]:
                if path in shown:
                    continue
                shown.add(path)
                print("VIOLATION property=%s replay=%s" % (self.prop, path))
                log("  ", what)
            return 1
        log("%s %s: OK in %.1fs (states=%d transitions=%d traces=%d)" % (self.prop, self.tier, wall, self.states, self.transitions, self.traces))
        return 0


def tlc_conformance(module, cfg, trace_path, xmx="3g", timeout=900):
    """Blocking-per-run / non-blocking-across-runs trace validation against the ACTIONS of a model (Trace_NgSearch style):
    returns (runs, drifted ids or None if validation did not complete, states, transitions)."""
    meta = os.path.join(WORK, "cf_%s_%d" % (cfg.replace(".cfg", ""), os.getpid()))
    shutil.rmtree(meta, ignore_errors=True)
    os.makedirs(meta, exist_ok=True)
    env = dict(os.environ)
    env["JAVA_TOOL_OPTIONS"] = "-Xss512m -Xms256m -Xmx%s -XX:ParallelGCThreads=1 -Dtlc2.tool.queue.IStateQueue=StateDeque" % xmx
    env["TRACE"] = trace_path
    p = run(["timeout", str(timeout), "tlc", "-workers", "1", "-metadir", meta, "-cleanup", "-noGenerateSpecTE", "-config", cfg, module + ".tla"], cwd=SPEC, env=env)
    shutil.rmtree(meta, ignore_errors=True)
    ends = [t for t in tlc_tuples(p.stdout) if t and t[0] == "END"]
    m = None
    for line in p.stdout.splitlines():
        mm = FINAL_RE.search(line)
        if mm:
            m = mm
    runs = sum(1 for l in open(trace_path) if '"kind":"start"' in l)
    if not ends or m is None:
        return runs, None, 0, 0
    best = min(ends, key=lambda t: t[1])
    drifted = re.findall(r'"([^"]+)"', json.dumps(best[2])) if best[1] else []
    return runs, drifted, int(m.group(2)), int(m.group(1))


def tlc_scenarios(module, cfg, trace_path, is_boundary, skip=None, xmx="2g", timeout=600, parallel=10):
    """Blocking trace validation against the ACTIONS of a model, one TLC run per scenario (scenarios start at boundary
    records). Each run reports <<"REACHED", k, n>>: how many records it could explain. Returns a list of dicts."""
    with open(trace_path) as f:
        lines = [l for l in f if l.strip()]
    scen, cur = [], None
    for l in lines:
        if is_boundary(l):
            cur = [l]
            scen.append(cur)
        elif cur is not None:
            cur.append(l)
    os.makedirs(WORK, exist_ok=True)

    def one(idx_sc):
        idx, sc = idx_sc
        head = json.loads(sc[0])
        if skip and skip(head):
            return {"id": head.get("id"), "skipped": True}
        path = os.path.join(WORK, "scen_%d_%d.ndjson" % (os.getpid(), idx))
        with open(path, "w") as f:
            f.writelines(sc)
        meta = os.path.join(WORK, "sc_%d_%d" % (os.getpid(), idx))
        shutil.rmtree(meta, ignore_errors=True)
        os.makedirs(meta, exist_ok=True)
        env = dict(os.environ)
        env["JAVA_TOOL_OPTIONS"] = "-Xss512m -Xms128m -Xmx%s -XX:ParallelGCThreads=1 -Dtlc2.tool.queue.IStateQueue=StateDeque" % xmx
        env["TRACE"] = path
        p = run(["timeout", str(timeout), "tlc", "-workers", "1", "-metadir", meta, "-cleanup", "-noGenerateSpecTE", "-config", cfg, module + ".tla"], cwd=SPEC, env=env)
        shutil.rmtree(meta, ignore_errors=True)
        try:
            os.remove(path)
        except OSError:
            pass
        m = re.search(r'<<"REACHED", (\d+), (\d+)>>', p.stdout)
        st = FINAL_RE.search(p.stdout)
        res = {"id": head.get("id"), "skipped": False, "records": len(sc), "reached": int(m.group(1)) if m else None,
               "states": int(st.group(2)) if st else 0, "transitions": int(st.group(1)) if st else 0}
        if m is None or p.returncode != 0:
            res["error"] = p.stdout[-600:]
        elif res["reached"] < len(sc):
            res["stuck_at"] = json.loads(sc[res["reached"]]) if res["reached"] < len(sc) else None
        return res

    with ThreadPoolExecutor(max_workers=parallel) as ex:
        return list(ex.map(one, enumerate(scen)))
