#!/usr/bin/env python3
"""seedverify.py <seed dir> [--features "<cargo args for the demo>"] : confirm a seeded change in the scratch worktree /tmp/wt_verify:
demo passes on HEAD, patch applies + compiles + existing suite passes, demo fails with the change. Leaves the worktree clean."""
import subprocess, sys, os, glob, shutil, json
seed = os.path.abspath(sys.argv[1]); extra = sys.argv[3].split() if len(sys.argv) > 3 and sys.argv[2] == "--features" else []
WT = "/tmp/wt_verify"
def sh(cmd, **kw): return subprocess.run(cmd, stdout=subprocess.PIPE, stderr=subprocess.STDOUT, text=True, cwd=WT, **kw)
def clean():
    sh(["git", "checkout", "--", "."]); sh(["git", "clean", "-fdq", "--", "lib", "bin", "server"])
clean()
demos = glob.glob(os.path.join(seed, "demo*.rs"))
res = {"seed": seed, "demos": [os.path.basename(d) for d in demos]}
def run_demos():
    out = {}
    for d in demos:
        name = os.path.splitext(os.path.basename(d))[0]
        os.makedirs(os.path.join(WT, "lib/tests"), exist_ok=True)
        shutil.copy(d, os.path.join(WT, "lib/tests", name + ".rs"))
        p = sh(["cargo", "test", "--offline", "-p", "adf_bdd", "--test", name] + extra)
        tail = [l for l in p.stdout.splitlines() if l.startswith("test result") or "error" in l[:8]]
        out[name] = (p.returncode, tail[-1] if tail else p.stdout[-300:])
    return out
res["demo_on_head"] = run_demos()
a = sh(["git", "apply", os.path.join(seed, "patch.diff")])
if a.returncode != 0:
    a = sh(["patch", "-p1", "--fuzz=3", "-i", os.path.join(seed, "patch.diff")])
res["apply"] = a.returncode
touched_server = "server/" in open(os.path.join(seed, "patch.diff")).read()
pk = ["--workspace"] if touched_server else ["-p", "adf_bdd", "-p", "adf-bdd-bin"]
# existing suite: move the demo out of the way first
for d in demos:
    try: os.remove(os.path.join(WT, "lib/tests", os.path.splitext(os.path.basename(d))[0] + ".rs"))
    except OSError: pass
t = sh(["cargo", "test", "--offline", "--no-fail-fast"] + pk)
lines = [l for l in t.stdout.splitlines() if l.startswith("test result")]
res["suite_rc"] = t.returncode
res["suite"] = lines
res["demo_with_change"] = run_demos()
clean()
print(json.dumps(res, indent=1))
ok = (res["apply"] == 0 and res["suite_rc"] == 0 and all(v[0] == 0 for v in res["demo_on_head"].values()) and any(v[0] != 0 for v in res["demo_with_change"].values()))
print("CONFIRMED" if ok else "NOT-CONFIRMED")
