"""Per-property decision procedures. Each returns the process exit status."""
import json, os, random, shutil
from common import *

REGISTRY = {}


def register(*ids):
    def deco(fn):
        for i in ids:
            REGISTRY[i] = fn
        return fn
    return deco


def _trim(rec, keep_calls=2):
    r = dict(rec)
    if "calls" in r:
        r["calls"] = r["calls"][:keep_calls]
    return r


def selftest_corrupt(module, trace_path, corrupt, expect_tag="MISMATCH"):
    """Binding self-test: corrupt one recorded field and require that TLC rejects exactly that record."""
    with open(trace_path) as f:
        lines = [l for l in f if l.strip()]
    rnd = random.Random(SEED)
    for _ in range(50):
        i = rnd.randrange(len(lines))
        rec = json.loads(lines[i])
        new = corrupt(rec)
        if new is not None:
            break
    else:
        raise ToolError("selftest: no record could be corrupted")
    lines2 = list(lines)
    lines2[i] = json.dumps(new) + "\n"
    p = os.path.join(WORK, "selftest_%s.ndjson" % module)
    with open(p, "w") as f:
        f.writelines(lines2)
    tr = tlc_trace(module, p)
    hit = [t for (gl, t) in tr["tuples"] if t[0] == expect_tag and gl == i + 1]
    other = [t for (gl, t) in tr["tuples"] if t[0] == expect_tag and gl != i + 1]
    log("selftest %s: corrupted record %d -> %d hits on it, %d elsewhere" % (module, i + 1, len(hit), len(other)))
    return len(hit) > 0


# ------------------------------------------------------------------ C01-C05 (shared harness subcommand)
SEM_RULE = ("records = ADFs as presented to the library (all 4 one-statement and all 256 two-statement ADFs in rotating "
            "syntactic forms, seeded three-statement truth tables, seeded structured/random ADFs with 3-6 statements); "
            "every semantics variant of the property is called on a fresh object; distinct = distinct input text; "
            "non-trivial = TLC reports a grounded interpretation that is neither all-undecided nor two-valued, or at "
            "least one two-valued model")


def _sem_mc(prop, tier, res):
    res.add_mc(require_mc(tlc_mc("MC_Sem", "MC_Sem_n2.cfg", workers=8, timeout=600)))
    if tier == "thorough":
        res.add_mc(require_mc(tlc_mc("MC_Sem", "MC_Sem_n3s.cfg", workers=12, timeout=1800)))


@register("C01", "C02", "C03")
def check_sem(prop, tier, replay, selftest, mc=_sem_mc):
    res = Result(prop, tier)
    binary = build_harness()
    mc(prop, tier, res)
    out = os.path.join(WORK, "sem_%s.ndjson" % prop)
    os.makedirs(WORK, exist_ok=True)
    args = ["sem", "--props", prop, "--tier", tier, "--out", out]
    if replay:
        args += ["--replay", replay]
    run_harness(binary, args)
    if selftest:
        def corrupt(rec):
            for c in rec.get("calls", []):
                if c["st"] == "ok" and c["r"] and c["r"][0]:
                    v = c["r"][0][0]
                    c["r"][0][0] = {"T": "F", "F": "U", "U": "T"}[v]
                    return rec
            return None
        ok = selftest_corrupt("Trace_Sem", out, corrupt)
        print("SELFTEST %s: %s" % (prop, "binding demonstrated" if ok else "FAILED"))
        return 0 if ok else 2
    tr = tlc_trace("Trace_Sem", out)
    res.add_trace(tr)
    recs = {}
    nontriv = set()
    ncalls = 0
    for gl, t in tr["tuples"]:
        if gl is None:
            continue
        if gl not in recs:
            recs[gl] = json.loads(tr["lines"][gl - 1])
        rec = recs[gl]
        if t[0] == "INFO":
            ncalls += len(rec["calls"]) + sum(t["runs"] for t in rec.get("trees", []))
            if t[3]:
                nontriv.add(rec["text"])
        elif t[0] == "MISMATCH" and t[3] == prop:
            bad = [c for c in rec["calls"] + rec.get("trees", []) if c["c"] == t[4] and c["b"] == t[5] and c["h"] == t[6]]
            payload = {"property": prop, "component": "sem", "record": dict(rec, calls=bad or rec["calls"]),
                       "mismatch": t, "how": "./check %s --replay <this file>" % prop}
            res.violation("%s_%s_%s_%s" % (rec["id"], t[4], t[5], t[6]), payload,
                          "%s: %s/%s/%s on %s observed %s" % (prop, t[4], t[5], t[6], rec["text"],
                                                              json.dumps([(c["st"], c.get("r", c.get("results")), c.get("ch")) for c in bad])[:300]))
    res.evaluations = ncalls
    res.distinct = nontriv
    res.rule = SEM_RULE
    res.exhaustive = False
    res.extra["exhaustive_subspace"] = "all ADFs with 1 and 2 statements (260) are enumerated completely on both sides"
    res.samples = [_trim(json.loads(l)) for l in tr["lines"][300:303]] or [_trim(json.loads(tr["lines"][0]))]
    res.assumptions = ["TLC evaluates AdfSem correctly", "the harness logs the answers the library returned (binding self-test: --selftest)",
                       "a hang is detected by a 20 s wall-clock budget per call (heuristic-call budget 4*3^n for custom heuristics)"]
    return res.finish()


def _c04_mc(prop, tier, res):
    res.add_mc(require_mc(tlc_mc("CountSearch", "CountSearch_n2_TRUE.cfg", workers=8, timeout=600)))
    if tier == "thorough":
        res.add_mc(require_mc(tlc_mc("CountSearch", "CountSearch_n3s_TRUE.cfg", workers=12, timeout=1800)))


@register("C04")
def check_c04(prop, tier, replay, selftest):
    if selftest:
        # fidelity of the transcription: the unrepaired loop must rediscover the lost-model defect
        r = tlc_mc("CountSearch", "CountSearch_n3s_FALSE.cfg", workers=12, timeout=900)
        ok = (r["violation"] is not None and "Exact" in r["violation"])
        print("SELFTEST C04 model: unrepaired transcription %s the lost-model defect" % ("rediscovers" if ok else "DOES NOT rediscover"))
        if not ok:
            return 2
    return check_sem(prop, tier, replay, selftest, mc=_c04_mc)


def _c05_mc(prop, tier, res):
    res.add_mc(require_mc(tlc_mc("NgSearch", "NgSearch_n2.cfg", workers=8, timeout=600)))
    res.add_mc(require_mc(tlc_mc("NgSearch", "NgSearch_n2_tv.cfg", workers=8, timeout=600)))
    res.add_mc(require_mc(tlc_mc("NgSearch", "NgSearch_n2_live.cfg", workers=8, timeout=600)))
    if tier == "thorough":
        res.add_mc(require_mc(tlc_mc("NgSearch", "NgSearch_n3s.cfg", workers=12, timeout=3600)))


@register("C05")
def check_c05(prop, tier, replay, selftest):
    return check_sem(prop, tier, replay, selftest, mc=_c05_mc)
