"""Per-property decision procedures. Each returns the process exit status."""
import json, os, random, shutil
from common import *
from concurrent.futures import ThreadPoolExecutor

REGISTRY = {}


def register(*ids):
    def deco(fn):
        for i in ids:
            REGISTRY[i] = fn
        return fn
    return deco


def _trim(rec, keep_calls=2):
    r = dict(rec)
    if "calls" in r:
        r["calls"] = r["calls"][:keep_calls]
    return r


def selftest_corrupt(module, trace_path, corrupt, expect_tag="MISMATCH", boundary=None):
    """Binding self-test: corrupt one recorded field and require that TLC rejects exactly that record."""
    with open(trace_path) as f:
        lines = [l for l in f if l.strip()]
    rnd = random.Random(SEED)
    for _ in range(5000):
        i = rnd.randrange(len(lines))
        rec = json.loads(lines[i])
        new = corrupt(rec)
        if new is not None:
            break
    else:
        raise ToolError("selftest: no record could be corrupted")
    lines2 = list(lines)
    lines2[i] = json.dumps(new) + "\n"
    p = os.path.join(WORK, "selftest_%s.ndjson" % module)
    with open(p, "w") as f:
        f.writelines(lines2)
    tr = tlc_trace(module, p, boundary=boundary)
    hit = [t for (gl, t) in tr["tuples"] if t[0] == expect_tag and gl == i + 1]
    other = [t for (gl, t) in tr["tuples"] if t[0] == expect_tag and gl != i + 1]
    log("selftest %s: corrupted record %d -> %d hits on it, %d elsewhere" % (module, i + 1, len(hit), len(other)))
    return len(hit) > 0


# ------------------------------------------------------------------ C01-C05 (shared harness subcommand)
SEM_RULE = ("records = ADFs as presented to the library (all 4 one-statement and all 256 two-statement ADFs in rotating "
            "syntactic forms, seeded three-statement truth tables, seeded structured/random ADFs with 3-6 statements, and composed "
            "frameworks of 9-16 statements (C02: 8-11) - independent blocks of 1-5 statements interleaved in the variable order plus observer "
            "statements - whose answers TLC derives block-wise with the composition theorem of AdfCompose after verifying the decomposition on the ASTs); "
            "every semantics variant of the property is called on a fresh object; distinct = distinct input text; "
            "non-trivial = TLC reports a grounded interpretation that is neither all-undecided nor two-valued, or at "
            "least one two-valued model")


def _compose_mc(tier, res, quick=("b", "e")):
    # the composition theorem behind the judgement of the large (composed) frameworks, against the direct definitions
    # shapes c and d (four statements, 65 536 + frameworks each) need more than an hour on this machine: their configurations are kept for
    # one-off runs (DESIGN 12.1), the tiers use the three-statement shapes
    for shape in (list(quick) if tier != "thorough" else ["a", "b", "e"]):
        res.add_mc(require_mc(tlc_mc("MC_Compose", "MC_Compose_%s.cfg" % shape, workers=8, timeout=3000)))


def _sem_mc(prop, tier, res):
    res.add_mc(require_mc(tlc_mc("MC_Sem", "MC_Sem_n2.cfg", workers=8, timeout=600)))
    _compose_mc(tier, res)
    if tier == "thorough":
        res.add_mc(require_mc(tlc_mc("MC_Sem", "MC_Sem_n3s.cfg", workers=12, timeout=1800)))
        if prop == "C01":
            # every ADF over three statements (16.7 M), staged so that all workers take part; best effort within 20 minutes
            res.add_mc(require_mc(tlc_mc("MC_Sem3", "MC_Sem3.cfg", workers=16, timeout=1200, xmx="24g", allow_timeout=True)))


@register("C01", "C02", "C03")
def check_sem(prop, tier, replay, selftest, mc=_sem_mc):
    res = Result(prop, tier)
    binary = build_harness()
    mc(prop, tier, res)
    out = os.path.join(WORK, "sem_%s.ndjson" % prop)
    os.makedirs(WORK, exist_ok=True)
    args = ["sem", "--props", prop, "--tier", tier, "--out", out]
    if replay:
        args += ["--replay", replay]
    run_harness(binary, args)
    if selftest:
        def corrupt(rec):
            for c in rec.get("calls", []):
                if c["st"] == "ok" and c["r"] and c["r"][0]:
                    v = c["r"][0][0]
                    c["r"][0][0] = {"T": "F", "F": "U", "U": "T"}[v]
                    return rec
            return None
        ok = selftest_corrupt("Trace_Sem", out, corrupt)
        def corrupt_big(rec):
            # a composed framework: an answer that lost one model (or, for one-vector answers, with one value flipped)
            if rec.get("kind") != "adfbig":
                return None
            for c in rec.get("calls", []):
                if c["st"] == "ok" and len(c["r"]) >= 2:
                    c["r"] = c["r"][:-1]
                    return rec
            return corrupt(rec)
        ok2 = selftest_corrupt("Trace_Sem", out, corrupt_big)
        print("SELFTEST %s: %s (small records), %s (composed records)" % (prop, "binding demonstrated" if ok else "FAILED", "binding demonstrated" if ok2 else "FAILED"))
        return 0 if ok and ok2 else 2
    tr = tlc_trace("Trace_Sem", out)
    res.add_trace(tr)
    recs = {}
    nontriv = set()
    ncalls = 0
    for gl, t in tr["tuples"]:
        if gl is None:
            continue
        if gl not in recs:
            recs[gl] = json.loads(tr["lines"][gl - 1])
        if t[0] == "BADRECORD":
            raise ToolError("harness claimed a decomposition that TLC refutes: %s" % (t,))
        if recs[gl].get("kind") not in ("adf", "adfbig"):
            continue
        rec = recs[gl]
        if t[0] == "INFO":
            ncalls += len(rec["calls"]) + sum(t["runs"] for t in rec.get("trees", []))
            if t[3]:
                nontriv.add(rec["text"])
        elif t[0] == "MISMATCH" and t[3] == prop:
            bad = [c for c in rec["calls"] + rec.get("trees", []) if c["c"] == t[4] and c["b"] == t[5] and c["h"] == t[6]]
            payload = {"property": prop, "component": "sem", "record": dict(rec, calls=bad or rec["calls"]),
                       "mismatch": t, "how": "./check %s --replay <this file>" % prop}
            res.violation("%s_%s_%s_%s" % (rec["id"], t[4], t[5], t[6]), payload,
                          "%s: %s/%s/%s on %s observed %s" % (prop, t[4], t[5], t[6], rec["text"],
                                                              json.dumps([(c["st"], c.get("r", c.get("results")), c.get("ch")) for c in bad])[:300]))
    res.evaluations = ncalls
    res.distinct = nontriv
    res.rule = SEM_RULE
    for line in tr["lines"][-3:]:
        if '"kind":"stat"' in line and '"id":"xprefilter"' in line:
            st = json.loads(line)
            res.extra["backend_differential_prefilter"] = {"adfs_run_through_every_backend_and_variant_of_this_semantics": st["prefilter_adfs"], "disagreements_recorded_and_judged_by_TLC": st["flagged"],
                                                           "note": "agreement is not evidence and is not counted as validated; the filter only widens the search for inputs worth recording"}
        elif '"kind":"stat"' in line:
            st = json.loads(line)
            res.extra["differential_prefilter"] = {"adfs_run_through_both_counting_searches_and_plain_stable": st["prefilter_adfs"], "disagreements_recorded_and_judged_by_TLC": st["flagged"],
                                                   "note": "agreement is not evidence and is not counted as validated; the filter only widens the search for inputs worth recording"}
    res.exhaustive = False
    res.extra["exhaustive_subspace"] = "all ADFs with 1 and 2 statements (260) are enumerated completely on both sides"
    big = [r for r in recs.values() if r.get("kind") == "adfbig"]
    res.extra["composed_frameworks"] = {"records": len(big), "statements": sorted(set(r["n"] for r in big)),
                                        "judged_by": "AdfCompose (block-wise definitions + composition theorem, model-checked by MC_Compose)"}
    res.samples = [_trim(json.loads(l)) for l in tr["lines"][300:303] if '"kind":"adf"' in l] or [_trim(json.loads(tr["lines"][0]))]
    res.assumptions = ["TLC evaluates AdfSem correctly", "the harness logs the answers the library returned (binding self-test: --selftest)",
                       "a hang is detected by a 20 s wall-clock budget per call (heuristic-call budget 4*3^n for custom heuristics)"]
    return res.finish()


def _c04_mc(prop, tier, res):
    res.add_mc(require_mc(tlc_mc("CountSearch", "CountSearch_n2_TRUE.cfg", workers=8, timeout=600)))
    _compose_mc(tier, res, quick=("e",))
    if tier == "thorough":
        res.add_mc(require_mc(tlc_mc("CountSearch", "CountSearch_n3s_TRUE.cfg", workers=12, timeout=1800)))


def _c04_conformance(res, binary, tier):
    """step-level conformance of CountSearch with the real recursion through the visit tracer (hook H3b): drift only"""
    prefix = os.path.join(WORK, "search_C04")
    run_harness(binary, ["search", "--tier", tier, "--out-prefix", prefix])
    same, drift = 0, []
    for n in (2, 3):
        tr = tlc_trace("Trace_CountSearch", "%s_count_n%d.ndjson" % (prefix, n), cfg="Trace_CountSearch_n%d.cfg" % n, shards=6)
        res.states += tr["states"]
        res.transitions += tr["transitions"]
        for gl, t in tr["tuples"]:
            if t and t[0] == "SAME":
                same += 1
            elif t and t[0] == "DRIFT":
                drift.append({"run": t[2]})
    res.extra["step_level_conformance"] = {"traced_runs_of_two_val_model_counts_logic": same + len(drift), "same_recursion_entries": same, "drifted": drift[:20],
                                           "meaning": "every entry (interpretation, will_be, depth) of the real recursion is produced, in the same pre-order, by CountSearch!Visits"}
    res.drift += drift
    log("CountSearch step-level conformance: %d traced runs, %d drifted" % (same + len(drift), len(drift)))


@register("C04")
def check_c04(prop, tier, replay, selftest):
    if selftest:
        # fidelity of the transcription: the unrepaired loop must rediscover the lost-model defect
        r = tlc_mc("CountSearch", "CountSearch_n3s_FALSE.cfg", workers=12, timeout=900)
        ok = (r["violation"] is not None and "Exact" in r["violation"])
        print("SELFTEST C04 model: unrepaired transcription %s the lost-model defect" % ("rediscovers" if ok else "DOES NOT rediscover"))
        if not ok:
            return 2
    def mc(prop, tier, res):
        _c04_mc(prop, tier, res)
        if not replay and not selftest:
            _c04_conformance(res, os.path.join(HARNESS, "target", "debug", "adfv"), tier)
    return check_sem(prop, tier, replay, selftest, mc=mc)


def _c05_mc(prop, tier, res):
    res.add_mc(require_mc(tlc_mc("NgSearch", "NgSearch_n2.cfg", workers=8, timeout=600)))
    res.add_mc(require_mc(tlc_mc("NgSearch", "NgSearch_n2_tv.cfg", workers=8, timeout=600)))
    res.add_mc(require_mc(tlc_mc("NgSearch", "NgSearch_n2_live.cfg", workers=8, timeout=600)))
    _compose_mc(tier, res, quick=("e",))
    if tier == "thorough":
        res.add_mc(require_mc(tlc_mc("NgSearch", "NgSearch_n3s.cfg", workers=12, timeout=3600)))


def _c05_conformance(res, binary, tier):
    """step-level conformance of NgSearch with the real loop through the search tracer (hook H3): drift only"""
    prefix = os.path.join(WORK, "search_C05")
    run_harness(binary, ["search", "--tier", tier, "--out-prefix", prefix])
    jobs = [("Trace_NgSearch_n%d_%s.cfg" % (n, m), "%s_n%d_%s.ndjson" % (prefix, n, m)) for n in (2, 3) for m in ("st", "tv")]
    with ThreadPoolExecutor(max_workers=4) as ex:
        outs = list(ex.map(lambda j: tlc_conformance("Trace_NgSearch", j[0], j[1]), jobs))
    total, drift = 0, []
    for (cfg, path), (runs, drifted, st, tr) in zip(jobs, outs):
        total += runs
        res.states += st
        res.transitions += tr
        if drifted is None:
            drift.append({"file": os.path.basename(path), "what": "validation did not complete"})
        else:
            drift += [{"run": d} for d in drifted]
    res.extra["step_level_conformance"] = {"traced_runs_of_nogood_internal": total, "drifted": drift[:20], "drift_count": len(drift),
                                           "meaning": "every logged loop-head state of the real search is reached by one NgSearch!Iterate step with the logged pick"}
    res.drift += drift
    log("NgSearch step-level conformance: %d traced runs, %d drifted" % (total, len(drift)))


@register("C05")
def check_c05(prop, tier, replay, selftest):
    def mc(prop, tier, res):
        _c05_mc(prop, tier, res)
        if not replay:
            _c05_conformance(res, os.path.join(HARNESS, "target", "debug", "adfv"), tier)
    return check_sem(prop, tier, replay, selftest, mc=mc)


# ------------------------------------------------------------------ C06 C07 C13 (store level, shared harness subcommand)
BDD_RULE = ("records = operations on real Bdd objects (fresh stores, stores of natively compiled and bridge-imported ADFs with "
            "semantics calls in between, stores continued after serde import / rebuild); the complete node table and the memo tables "
            "(hook H1) are logged after every operation; plus long sequences (30-70 operations) on large stores over 7-10 variables (tables up to "
            "250 nodes), one record each with the final table, the operation list, two intermediate tables, the memo tables and the queries of "
            "the deepest handles, judged with the BigBdd operators; distinct = distinct (operation, operands, resulting table); non-trivial = the "
            "operation appended at least one node")


def _bdd_mc(prop, tier, res):
    res.add_mc(require_mc(tlc_mc("Robdd", "Robdd_nv2.cfg", workers=12, timeout=900)))
    if tier == "thorough":
        for cfg in ("Robdd_nv2_novl.cfg", "Robdd_nv2_models.cfg", "Robdd_nv2_nocount.cfg", "Robdd_nv3.cfg"):
            res.add_mc(require_mc(tlc_mc("Robdd", cfg, workers=12, timeout=3000)))


def bdd_records(binary, tier, tag):
    out = os.path.join(WORK, "bdd_%s.ndjson" % tag)
    os.makedirs(WORK, exist_ok=True)
    run_harness(binary, ["bdd", "--tier", tier, "--out", out])
    return out


def is_reset(line):
    return '"kind":"reset"' in line


@register("C06", "C07", "C13")
def check_bdd(prop, tier, replay, selftest):
    res = Result(prop, tier)
    binary = build_harness()
    out = bdd_records(binary, tier, prop)
    if selftest:
        def corrupt(rec):
            if rec.get("kind") != "op" or rec["op"] == "var":
                return None
            rec["r"] = (rec["r"] + 1) % len(rec["nodes"])
            return rec
        ok = selftest_corrupt("Trace_Bdd", out, corrupt, boundary=is_reset)
        def corrupt_big(rec):
            # a long sequence on a large store: one operation's result handle replaced by its neighbour
            if rec.get("kind") != "bigseq":
                return None
            for o in rec["ops"][len(rec["ops"]) // 2:]:
                if o["op"] != "var" and o["r"] > 1:
                    o["r"] = o["r"] - 1
                    return rec
            return None
        ok2 = selftest_corrupt("Trace_Bdd", out, corrupt_big, boundary=is_reset)
        print("SELFTEST %s: %s (step records), %s (large stores)" % (prop, "binding demonstrated" if ok else "FAILED", "binding demonstrated" if ok2 else "FAILED"))
        return 0 if ok and ok2 else 2
    _bdd_mc(prop, tier, res)
    tr = tlc_trace("Trace_Bdd", out, boundary=is_reset)
    res.add_trace(tr)
    _bdd_collect(prop, res, tr)
    # the same predicates on a build with every optional feature off: the fallback code paths (restrict without the dependency
    # shortcut, recursive dependency sets, counting without the ad-hoc cache) exist only there and are as much the store as the default ones
    nb = build_harness(features=combo_features("none", False, False), target_dir=os.path.join(HARNESS, "target-none"))
    out2 = os.path.join(WORK, "bdd_%s_none.ndjson" % prop)
    run_harness(nb, ["bdd", "--tier", "quick", "--nseq", "60" if tier == "quick" else "300", "--out", out2])
    tr2 = tlc_trace("Trace_Bdd", out2, boundary=is_reset, cfg=trace_bdd_cfg("none", False))
    res.add_trace(tr2)
    _bdd_collect(prop, res, tr2, build="none")
    res.extra["builds"] = ["default", "no optional feature"]
    if prop == "C13":
        # the counts as the CLI prints them (--counter nai, naive and hybrid arm)
        out3 = cli_trace(binary, tier, "C13")
        tr3 = tlc_trace("Trace_Cli", out3, min_per_shard=10)
        res.add_trace(tr3)
        cli_collect(prop, res, tr3)
        res.extra["cli_counter_launches"] = sum(1 for l in tr3["lines"] if '"kind":"cli_counter"' in l)
    return res.finish()


def _bdd_collect(prop, res, tr, props=None, build=None):
    props = props or {prop}
    prevlen = 0
    seen = set(res.distinct) if build else set()
    nops = res.evaluations if build else 0
    for line in tr["lines"]:
        r = json.loads(line)
        k = r.get("kind")
        if k == "reset":
            prevlen = len(r["nodes"])
        elif k in ("op", "opaque", "persist"):
            nops += 1
            if len(r["nodes"]) > prevlen:
                seen.add(hashlib.sha1(json.dumps([r.get("op"), r.get("a"), r.get("b"), r.get("v"), r.get("val"), r["nodes"]]).encode()).hexdigest())
            prevlen = len(r["nodes"])
        elif k == "query":
            nops += 1
            if r["h"] > 1:
                seen.add(hashlib.sha1(json.dumps([r["h"], r["nodes"]]).encode()).hexdigest())
        elif k == "bigseq":
            nops += len(r["ops"]) + len(r["queries"])
            seen.add(hashlib.sha1(json.dumps(r["nodes"]).encode()).hexdigest())
            if not build:
                b = res.extra.setdefault("large_stores", {"sequences": 0, "variables": [], "max_nodes": 0, "operations": 0,
                                                         "judged_by": "BigBdd (integer-assignment denotations built bottom-up; agreement with RobddOps checked on every small table)"})
                b["sequences"] += 1
                b["variables"] = sorted(set(b["variables"]) | {r["nv"]})
                b["max_nodes"] = max(b["max_nodes"], len(r["nodes"]))
                b["operations"] += len(r["ops"])
    for gl, t in tr["tuples"]:
        if gl is None:
            continue
        if t[0] == "SPECBUG":
            raise ToolError("specification inconsistency: %s" % (t,))
        # C06 speaks about FORMULAS and their handles ("same handle iff same function", "collapses to top iff valid"): an operation
        # that hands out a handle denoting another function than the formula it was asked for breaks it as much as a duplicate node does
        also_c06 = prop == "C06" and t[0] == "MISMATCH" and t[3] == "C07" and t[4] != "prefix"
        if t[0] == "MISMATCH" and (t[3] in props or also_c06):
            rec = json.loads(tr["lines"][gl - 1])
            # the replay file carries the whole sequence up to the failing record
            j = gl - 1
            while j > 0 and not is_reset(tr["lines"][j]):
                j -= 1
            seq = [json.loads(x) for x in tr["lines"][j:gl]] if rec.get("kind") != "bigseq" else [rec]
            slim = [{k: v for k, v in s.items() if k not in ("dump",)} for s in seq[:-1]] + [seq[-1]]
            res.violation("%s%s_%s" % (build + "_" if build else "", rec["id"], t[4]),
                          {"property": prop, "component": "bdd", "build": build or "default", "sequence": slim, "mismatch": t},
                          "%s: predicate %s false on record %s%s" % (t[3], t[4], rec["id"], " (build without optional features)" if build else ""))
        elif t[0] == "DRIFT":
            res.drift.append({"record": t[2], "op": t[3]})
    res.evaluations = nops
    res.distinct = seen
    res.rule = BDD_RULE
    if build:
        return
    res.extra["drift_count"] = len(res.drift)
    res.extra["model_level_conformance"] = "model stepped from the real pre-state predicts the real post-state (handles, node order, all memo entries) on every op record without drift" if not res.drift else "drift observed: step-level conformance lost, verdicts are I/O level only"
    ops = [json.loads(l) for l in tr["lines"][:400] if '"kind":"op"' in l]
    res.samples = [{k: v for k, v in o.items() if k != "dump"} for o in ops[20:23]] or [{"note": "no op records"}]
    res.assumptions = ["TLC evaluates RobddOps correctly", "the harness logs the real node table and (hook H1) the real memo tables (binding self-test: --selftest)",
                       "variables 0..nv-1 with nv <= 5 (long sequences on large stores: 7-10) on the code side; NV = 2 closed state graph (any history) and NV = 3 bounded on the model side"]


# ------------------------------------------------------------------ C11 / C14 (call histories on one Adf object)
HIST_RULE = ("records = seeded call histories (2-10 public calls out of 15 kinds incl. every semantics, Rand with seeds, counting, extra "
             "formulas on the shared diagram) on one Adf object (native / hybrid / hybrid without pre-grounding), each call repeated on a "
             "fresh object, the whole history run twice; distinct = distinct (ADF text, call list); non-trivial = history contains at least "
             "two semantics calls")


def _hist_stats(res, tr):
    seen = set()
    ncalls = 0
    samples = []
    for line in tr["lines"]:
        if '"kind":"hist"' not in line:
            continue
        r = json.loads(line)
        ncalls += len(r["calls"])
        if sum(1 for c in r["calls"] if c["c"] not in ("bddop", "formulacounts", "facet")) >= 2:
            seen.add(hashlib.sha1(json.dumps([r["text"], [(c["c"], c["h"], c["seed"]) for c in r["calls"]]]).encode()).hexdigest())
        if len(samples) < 3:
            samples.append({"text": r["text"], "backend": r["backend"], "persist": r["persist"].get("how"),
                            "calls": [{k: c[k] for k in ("c", "h", "a", "f")} for c in r["calls"][:4]]})
    res.evaluations = ncalls
    res.distinct = seen
    res.samples = samples
    res.rule = HIST_RULE


def _collect_generic(prop, res, tr, component):
    for gl, t in tr["tuples"]:
        if gl is None:
            continue
        if t[0] == "MISMATCH" and t[3] == prop:
            rec = json.loads(tr["lines"][gl - 1])
            j = gl - 1
            while j > 0 and not is_reset(tr["lines"][j]):
                j -= 1
            seq = [json.loads(x) for x in tr["lines"][j:gl]] if rec.get("kind") != "bigseq" else [rec]
            slim = [{k: v for k, v in s.items() if k not in ("dump",)} for s in seq[:-1]] + [seq[-1]]
            res.violation("%s_%s" % (rec["id"], json.dumps(t[4])[:40]), {"property": prop, "component": component, "sequence": slim, "mismatch": t},
                          "%s: %s on record %s (%s)" % (prop, json.dumps(t[4]), rec["id"], rec.get("text", "")))
        elif t[0] == "DRIFT":
            res.drift.append({"record": t[2], "what": t[3]})


@register("C11")
def check_c11(prop, tier, replay, selftest):
    res = Result(prop, tier)
    binary = build_harness()
    out = os.path.join(WORK, "hist_C11.ndjson")
    os.makedirs(WORK, exist_ok=True)
    run_harness(binary, ["hist", "--tier", tier, "--out", out])
    if selftest:
        def corrupt(rec):
            if rec.get("kind") != "hist":
                return None
            for c in rec["calls"]:
                if c["c"] in ("grounded", "complete") and c["a"]:
                    c["a"][0][0] = 1 if c["a"][0][0] != 1 else 0
                    return rec
            return None
        ok = selftest_corrupt("Trace_Bdd", out, corrupt, boundary=is_reset)
        print("SELFTEST %s: %s" % (prop, "binding demonstrated" if ok else "FAILED"))
        return 0 if ok else 2
    res.add_mc(require_mc(tlc_mc("Robdd", "Robdd_nv2.cfg", workers=12, timeout=900)))
    res.add_mc(require_mc(tlc_mc("AdfRobdd", "AdfRobdd_n2.cfg" if tier == "thorough" else "AdfRobdd_n2_quick.cfg", workers=12, timeout=2400)))
    tr = tlc_trace("Trace_Bdd", out, boundary=is_reset)
    res.add_trace(tr)
    _collect_generic(prop, res, tr, "hist")
    _hist_stats(res, tr)
    res.extra["drift_count"] = len(res.drift)
    fol = [t[3] for (_, t) in tr["tuples"] if t and t[0] == "FOLLOWED"]
    res.extra["histories_followed_by_store_level_model"] = {"fully": fol.count("fully"), "partly": fol.count("partly"),
        "meaning": "AdfRobddOps (grounded / complete / stable / pre-filter / extra formulas on RobddOps) stepped from the real pre-state predicts every raw answer (handles, order) and the final node table"}
    res.assumptions = ["TLC evaluates AdfSem / RobddOps correctly", "the harness logs the raw answers (handles included) of the library (binding self-test: --selftest)",
                       "cache transparency on the model side = StepOK on every transition of the closed two-variable store graph (memo tables warm or cold)"]
    return res.finish()


@register("C14")
def check_c14(prop, tier, replay, selftest):
    res = Result(prop, tier)
    binary = build_harness()
    out = os.path.join(WORK, "hist_C14.ndjson")
    os.makedirs(WORK, exist_ok=True)
    run_harness(binary, ["hist", "--tier", tier, "--persist", "--out", out])
    out2 = bdd_records(binary, tier, "C14")
    if selftest:
        def corrupt(rec):
            if rec.get("kind") != "hist" or rec["persist"].get("how") == "none" or len(rec["persist"]["copy_nodes"]) < 4:
                return None
            rec["persist"]["copy_nodes"][-1][1] = (rec["persist"]["copy_nodes"][-1][1] + 1) % 2
            return rec
        ok = selftest_corrupt("Trace_Bdd", out, corrupt, boundary=is_reset)
        print("SELFTEST %s: %s" % (prop, "binding demonstrated" if ok else "FAILED"))
        r1 = tlc_mc("Persist", "Persist_nv2_origrepair.cfg", workers=8, timeout=600)
        print("SELFTEST C14 model: the shipped repair step (dependency list appended, not rebuilt) %s the store when called on a live object (F13)" %
              ("corrupts" if r1["violation"] else "DOES NOT corrupt"))
        return 0 if ok and r1["violation"] else 2
    res.add_mc(require_mc(tlc_mc("Persist", "Persist_nv2.cfg", workers=12, timeout=1200)))
    tr = tlc_trace("Trace_Bdd", out, boundary=is_reset)
    res.add_trace(tr)
    _collect_generic(prop, res, tr, "hist")
    _hist_stats(res, tr)
    tr2 = tlc_trace("Trace_Bdd", out2, boundary=is_reset)
    res.add_trace(tr2)
    _collect_generic(prop, res, tr2, "bdd")
    # the CLI's --export / --import and the no-overwrite rule: the directory machine CliFs, and sessions of the real binary followed with it
    res.add_mc(require_mc(tlc_mc("CliFs", "CliFs.cfg", workers=8, timeout=600)))
    res.extra["tlaps"] = tlaps_proof("CliFsProof")        # never-overwrite for any names / ADFs / number of invocations
    out3 = cli_trace(binary, tier, "C14")
    tr3 = tlc_trace("Trace_Cli", out3, min_per_shard=10)
    res.add_trace(tr3)
    cli_collect(prop, res, tr3)
    for gl, t in tr3["tuples"]:
        if gl is not None and t[0] == "DRIFT":
            res.drift.append({"record": t[2], "what": t[3]})
    res.extra["cli_persistence_scenarios"] = sum(1 for l in tr3["lines"] if '"kind":"cli_persist"' in l)
    res.extra["cli_directory_sessions"] = sum(1 for l in tr3["lines"] if '"kind":"cli_fs"' in l)
    npers = sum(1 for l in tr["lines"] + tr2["lines"] if '"kind":"persist"' in l)
    res.extra["persist_points"] = npers
    res.extra["drift_count"] = len(res.drift)
    res.rule += "; for C14 a serde round trip + fix_import or a rebuild from the plain node list (as server/src/adf.rs does) happens at a random point of every history and the copy continues the same calls"
    res.assumptions = ["TLC evaluates Persist / RobddOps / AdfSem correctly", "the harness performs the round trips exactly as bin/src/main.rs (serde_json + fix_import) and server/src/adf.rs (decimal strings, Bdd::from(Vec<BddNode>)) do"]
    return res.finish()


# ------------------------------------------------------------------ C18
@register("C18")
def check_c18(prop, tier, replay, selftest):
    res = Result(prop, tier)
    binary = build_harness()
    out = os.path.join(WORK, "ng_C18.ndjson")
    os.makedirs(WORK, exist_ok=True)
    run_harness(binary, ["ng", "--tier", tier, "--out", out])
    if selftest:
        r1 = tlc_mc("NoGoods", "NoGoods_v3_origfold.cfg", workers=8, timeout=600)
        r2 = tlc_mc("NoGoods", "NoGoods_v3_origsub.cfg", workers=8, timeout=600)
        ok1 = r1["violation"] is not None and "P2" in r1["violation"]
        ok2 = r2["violation"] is not None
        print("SELFTEST C18 model: unrepaired fold %s the spurious conflict; unrepaired Subsume %s the forgotten nogood (%s)" %
              ("rediscovers" if ok1 else "MISSES", "rediscovers" if ok2 else "MISSES", r2["violation"]))
        def corrupt(rec):
            if rec.get("kind") != "ngstore":
                return None
            for q in rec["queries"]:
                if q["concl"]["st"] == "some" and len(q["i"]["act"]) == rec["v"]:
                    q["concl"] = {"st": "none", "act": [], "val": []}     # a total, non-excluded assignment reported as conflict
                    return rec
            return None
        ok = selftest_corrupt("Trace_NoGoods", out, corrupt)
        print("SELFTEST %s: %s" % (prop, "binding demonstrated" if ok else "FAILED"))
        return 0 if (ok and ok1 and ok2) else 2
    res.add_mc(require_mc(tlc_mc("NoGoods", "NoGoods_v3.cfg", workers=12, timeout=900)))
    if tier == "thorough":
        res.add_mc(require_mc(tlc_mc("NoGoods", "NoGoods_v3_4adds.cfg", workers=12, timeout=3000)))
    tr = tlc_trace("Trace_NoGoods", out)
    res.add_trace(tr)
    nq = 0
    seen = set()
    for line in tr["lines"]:
        r = json.loads(line)
        if r.get("kind") != "ngstore":
            continue
        nq += len(r["queries"])
        if any(q["concl"]["st"] == "none" or len(q["concl"]["act"]) > len(q["i"]["act"]) for q in r["queries"]):
            seen.add(hashlib.sha1(json.dumps(r["steps"]).encode()).hexdigest())
    for gl, t in tr["tuples"]:
        if gl is None:
            continue
        if t[0] == "MISMATCH":
            rec = json.loads(tr["lines"][gl - 1])
            sig = {"added_nogood_size": 0} if str(t[4]).endswith("-emptynogood") else {"predicate": t[4]}
            kf = known_match(prop, sig)
            if kf:
                res.known(kf, "add sequence starting with the empty nogood: %s (record %s)" % (t[4], rec["id"]))
                continue
            q = rec["queries"][t[5] - 1] if t[5] else None
            res.violation("%s_%s_%s" % (rec["id"], t[4], t[5]), {"property": prop, "component": "ngstore", "record": dict(rec, queries=[q] if q else []), "mismatch": t},
                          "C18 %s: steps %s query %s" % (t[4], json.dumps(rec.get("steps"))[:300], json.dumps(q)[:300]))
        elif t[0] == "DRIFT":
            res.drift.append({"record": t[2], "what": t[3]})
    res.evaluations = nq
    res.distinct = seen
    res.rule = ("records = seeded add sequences (1-7 nogoods over 2-6 positions; duplicates, nested and subsuming nogoods, mode switches "
                "None/Equiv/Subsume) on a real NoGoodStore, each followed by conclusions + closure queries (all 3^v interpretations for v <= 3, "
                "targeted and random ones above); a quarter of the sequences use 2-6 positions scattered over a store up to 140 000 positions wide "
                "(word, 4096- and 65536-boundaries of the bitmap representation; TLC maps the real positions back through the record's position list); "
                "distinct = distinct add sequence; non-trivial = at least one query yields a conflict or a new literal")
    res.samples = [dict(json.loads(l), queries=json.loads(l)["queries"][:2], dump="...") for l in tr["lines"][10:12]]
    res.extra["drift_count"] = len(res.drift)
    res.assumptions = ["TLC evaluates NoGoodsOps correctly", "hook H2 exports buckets / closure faithfully",
                       "nogoods larger than the store size are outside the documented domain and not generated"]
    return res.finish()


# ------------------------------------------------------------------ C20
@register("C20")
def check_c20(prop, tier, replay, selftest):
    res = Result(prop, tier)
    binary = build_harness()
    out = os.path.join(WORK, "iter_C20.ndjson")
    os.makedirs(WORK, exist_ok=True)
    run_harness(binary, ["iter", "--tier", tier, "--out", out])
    if selftest:
        def corrupt(rec):
            if len(rec.get("three", [])) < 3:
                return None
            rec["three"][2] = rec["three"][1]
            return rec
        ok = selftest_corrupt("Trace_Iter", out, corrupt)
        print("SELFTEST %s: %s" % (prop, "binding demonstrated" if ok else "FAILED"))
        return 0 if ok else 2
    res.add_mc(require_mc(tlc_mc("MC_Iter", "MC_Iter.cfg", workers=8, timeout=600)))
    tr = tlc_trace("Trace_Iter", out, min_per_shard=20)
    res.add_trace(tr)
    seen = set()
    items = 0
    for line in tr["lines"]:
        r = json.loads(line)
        items += len(r["two"]) + len(r["three"])
        if any(x > 1 for x in r["vec"]):
            seen.add(tuple("U" if x > 1 else str(x) for x in r["vec"]))
    for gl, t in tr["tuples"]:
        if gl is None:
            continue
        if t[0] == "MISMATCH":
            rec = json.loads(tr["lines"][gl - 1])
            res.violation("%s_%s" % (rec["id"], t[4]), {"property": prop, "component": "iter", "record": rec, "mismatch": t},
                          "C20 %s on vector %s" % (t[4], rec["vec"]))
        elif t[0] == "DRIFT":
            res.drift.append({"record": t[2], "what": t[3]})
    res.evaluations = items
    res.distinct = seen
    res.exhaustive = False
    res.extra["exhaustive_subspace"] = "all 364 vectors of length <= 5 over {T,F,U} on both the model and the real iterators"
    res.rule = ("records = interpretation vectors (all 364 of length <= 5, seeded ones of length 6-10 with <= 8 undecided positions, arbitrary "
                "non-constant handles); both real iterators are run to exhaustion and three more calls; plus vectors with 12-130 undecided positions "
                "(every machine-word boundary of 2^k and 3^k) whose first 40 items are drawn and followed by the model; evaluations = emitted items; "
                "distinct = distinct T/F/U pattern; non-trivial = at least one undecided position")
    res.samples = [json.loads(l) for l in tr["lines"][30:32]]
    res.extra["drift_count"] = len(res.drift)
    res.assumptions = ["TLC evaluates Iterators correctly", "the harness logs the raw items the iterators returned"]
    return res.finish()


# ------------------------------------------------------------------ C19
@register("C19")
def check_c19(prop, tier, replay, selftest):
    res = Result(prop, tier)
    binary = build_harness()
    out = os.path.join(WORK, "frontend_C19.ndjson")
    os.makedirs(WORK, exist_ok=True)
    run_harness(binary, ["frontend", "--tier", tier, "--out", out])
    if selftest:
        def corrupt(rec):
            polls = [s for s in rec.get("steps", []) if s["a"] in ("relay", "recv") and len(s["nodes"]) > 3]
            if rec.get("mode") != "scheduled" or not polls:
                return None
            polls[0]["nodes"] = polls[0]["nodes"][:-1]      # the observer "lost" its newest node
            return rec
        ok = selftest_corrupt("Trace_Frontend", out, corrupt)
        print("SELFTEST %s: %s" % (prop, "binding demonstrated" if ok else "FAILED"))
        r1 = tlc_mc("FrontendHangup", "FrontendHangup_fwdfirst.cfg", workers=8, timeout=600)
        print("SELFTEST C19 model: a relay that forwards before it stores %s the mirror once the last store has hung up" % ("breaks" if r1["violation"] else "DOES NOT break"))
        return 0 if ok and r1["violation"] else 2
    res.add_mc(require_mc(tlc_mc("Frontend", "Frontend.cfg", workers=8, timeout=600)))
    res.add_mc(require_mc(tlc_mc("FrontendHangup", "FrontendHangup.cfg", workers=8, timeout=600)))
    if tier == "thorough":
        res.add_mc(require_mc(tlc_mc("Frontend", "Frontend_9.cfg", workers=12, timeout=2400)))
    # unbounded: TLAPS proves PrefixInv /\ FoundRule inductive for any stream length and interleaving (same Frontend.tla)
    res.extra["tlaps"] = tlaps_proof("FrontendProof")
    # ... and, with the last store dropped at any moment (FrontendHangup!SpecH, the code's push-then-forward order), the relay still mirrors the producer
    res.extra["tlaps_hangup"] = tlaps_proof("FrontendHangupProof")
    tr = tlc_trace("Trace_Frontend", out)
    res.add_trace(tr)
    # the same workload (reduced) on a build with the frontend feature ALONE: the streaming code is interleaved with feature-gated
    # bookkeeping (ad-hoc counting, variable lists) in Bdd::node, and the mirror must not depend on any of it
    fb = build_harness(features=["frontend"], target_dir=os.path.join(HARNESS, "target-fe"))
    out2 = os.path.join(WORK, "frontend_C19_feonly.ndjson")
    run_harness(fb, ["frontend", "--tier", "feat", "--out", out2])
    tr2 = tlc_trace("Trace_Frontend", out2)
    res.add_trace(tr2)
    for gl, t in tr2["tuples"]:
        if gl is not None and t[0] == "MISMATCH":
            rec = json.loads(tr2["lines"][gl - 1])
            res.violation("feonly_%s_%s" % (rec["id"], t[4]), {"property": prop, "component": "frontend", "build": "frontend feature only", "record": rec, "mismatch": t},
                          "C19 %s at step %s of run %s (%s; build with the frontend feature only)" % (t[4], t[5], rec["id"], rec.get("mode")))
    res.extra["builds"] = ["default", "frontend only"]
    seen = set()
    polls = 0
    for line in tr["lines"]:
        r = json.loads(line)
        if r.get("kind") != "frontend":
            continue
        ps = [s for s in r["steps"] if s["a"] in ("relay", "recv")]
        polls += len(ps)
        if any(not s["found"] for s in ps) and any(s["found"] and s["h"] >= 2 for s in ps):
            seen.add(hashlib.sha1(json.dumps([r["prod"], [(s["a"], s.get("h")) for s in r["steps"]]]).encode()).hexdigest())
    for gl, t in tr["tuples"]:
        if gl is None:
            continue
        if t[0] == "MISMATCH":
            rec = json.loads(tr["lines"][gl - 1])
            res.violation("%s_%s" % (rec["id"], t[4]), {"property": prop, "component": "frontend", "record": rec, "mismatch": t},
                          "C19 %s at step %s of run %s (%s)" % (t[4], t[5], rec["id"], rec.get("mode")))
        elif t[0] == "DRIFT":
            res.drift.append({"record": t[2], "what": t[3], "step": t[4]})
    res.evaluations = polls
    res.distinct = seen
    res.rule = ("records = runs of a real producer store streaming into a real relay store (sender+receiver) and a real receiver: every schedule "
                "of length 3 over {forward one message, relay poll h, receiver poll h} on a 3-node stream, seeded long schedules on streams of 3-14 "
                "nodes, and free-running threads; evaluations = polls; distinct = distinct (producer table, schedule); non-trivial = the run contains "
                "both a poll answered not-found and one answered found for a streamed node")
    res.samples = [dict(json.loads(l), steps=json.loads(l)["steps"][:4]) for l in tr["lines"][5000:5002] or tr["lines"][:1]]
    res.extra["drift_count"] = len(res.drift)
    res.assumptions = ["TLC evaluates Frontend correctly", "tlapm and its back ends (SMT, Zenon, Isabelle, PTL) are sound for FrontendProof", "in scheduled mode producer progress is played by forwarding the producer's own messages one at a time (the producer's table at cut k is the prefix of its final table: append-only, C07)",
                       "in threads mode no cross-thread order is inferred; each observer's tables are judged against the producer's final table"]
    return res.finish()


# ------------------------------------------------------------------ C08
@register("C08")
def check_c08(prop, tier, replay, selftest):
    res = Result(prop, tier)
    binary = build_harness()
    bindir = build_repo_bins(("adf-bdd-bin",))
    out = os.path.join(WORK, "parse_C08.ndjson")
    os.makedirs(WORK, exist_ok=True)
    run_harness(binary, ["parse", "--tier", tier, "--out", out, "--cli", os.path.join(bindir, "adf-bdd"), "--work", WORK])
    if selftest:
        def corrupt(rec):
            if rec.get("verdict") != "ok" or rec.get("class") != "wellformed" or len(rec["names"]) < 2:
                return None
            rec["names"][0], rec["names"][1] = rec["names"][1], rec["names"][0]
            return rec
        ok = selftest_corrupt("Trace_Parse", out, corrupt)
        print("SELFTEST %s: %s" % (prop, "binding demonstrated" if ok else "FAILED"))
        return 0 if ok else 2
    res.add_mc(require_mc(tlc_mc("MC_Syntax", "MC_Syntax_deep.cfg" if tier == "thorough" else "MC_Syntax.cfg", workers=12, timeout=1800)))
    tr = tlc_trace("Trace_Parse", out)
    res.add_trace(tr)
    classes = {}
    seen = set()
    for gl, t in tr["tuples"]:
        if gl is None:
            continue
        rec = json.loads(tr["lines"][gl - 1])
        if t[0] == "INFO":
            classes[t[3]] = classes.get(t[3], 0) + 1
            if t[3] != "DONT_CARE":
                seen.add(rec["text"])
        elif t[0] == "MISMATCH":
            res.violation("%s_%s" % (rec["id"], t[4]), {"property": prop, "component": "parse", "record": rec, "mismatch": t},
                          "C08 %s on text %r (parser verdict %s)" % (t[4], rec["text"], rec["verdict"]))
        elif t[0] == "DRIFT":
            res.drift.append({"record": t[2], "what": t[3]})
    res.evaluations = tr["records"]
    res.distinct = seen
    res.extra["oracle_classes"] = classes
    res.extra["cli_checked"] = sum(1 for l in tr["lines"] if '"cli":[{' in l)
    res.rule = ("records = texts through the real parser: seeded well-formed files (1-4 statements, formulas to depth 3 over all seven connectives "
                "and both constants, plain / keyword-like / quoted labels, documented whitespace, shuffled fact order) and two suspicious mutations "
                "of each (bracket, terminator, arity, garbage, blanks, truncation); TLC classifies each text itself with the strict and lenient "
                "recogniser; distinct = distinct text; non-trivial = class is MUST_ACCEPT or MUST_REJECT")
    res.samples = [{k: json.loads(l)[k] for k in ("id", "text", "verdict", "class")} for l in tr["lines"][40:44]]
    res.extra["drift_count"] = len(res.drift)
    res.assumptions = ["TLC evaluates AdfSyntax correctly", "texts <= 156 characters", "the web service's rejection path is exercised in C16"]
    return res.finish()


# ------------------------------------------------------------------ C09
@register("C09")
def check_c09(prop, tier, replay, selftest):
    res = Result(prop, tier)
    binary = build_harness()
    out = os.path.join(WORK, "compile_C09.ndjson")
    os.makedirs(WORK, exist_ok=True)
    run_harness(binary, ["compile", "--tier", tier, "--out", out])
    if selftest:
        def corrupt(rec):
            if rec.get("st") != "ok" or len(rec["nodes"]) < 6:
                return None
            # swap lo / hi of a node that is the root of some statement
            roots = [h for h in rec["ac"] if h > 1]
            if not roots:
                return None
            h = roots[0]
            rec["nodes"][h][1], rec["nodes"][h][2] = rec["nodes"][h][2], rec["nodes"][h][1]
            return rec
        ok = selftest_corrupt("Trace_Compile", out, corrupt)
        print("SELFTEST %s: %s" % (prop, "binding demonstrated" if ok else "FAILED"))
        return 0 if ok else 2
    res.add_mc(require_mc(tlc_mc("MC_Sem", "MC_Sem_n2.cfg", workers=8, timeout=600)))
    tr = tlc_trace("Trace_Compile", out, min_per_shard=3)
    res.add_trace(tr)
    seen = set()
    big = 0
    pregrounded = 0
    for gl, t in tr["tuples"]:
        if gl is None:
            continue
        rec = json.loads(tr["lines"][gl - 1])
        if t[0] == "INFO":
            if len(rec["nodes"]) > 2:
                seen.add(hashlib.sha1((rec["text"] + rec["path"] + rec["sort"]).encode()).hexdigest())
            if t[3] >= 20:
                big += 1
            if t[4] > 0 and rec["path"] == "hybrid":
                pregrounded += 1
        elif t[0] == "MISMATCH":
            res.violation("%s_%s_%s" % (rec["id"], t[4], t[5]), {"property": prop, "component": "compile", "record": rec, "mismatch": t},
                          "C09 %s statement %s path %s sort %s: %s" % (t[4], t[5], rec["path"], rec["sort"], rec["text"][:200]))
    res.evaluations = tr["records"]
    res.distinct = seen
    res.extra["large_adfs_20_to_40_statements"] = big
    res.extra["pregrounded_imports_with_decided_statements"] = pregrounded
    res.rule = ("records = compiled ADFs (1-5 statements: every assignment; 20-40 statements with supports <= 7 (thorough 9) and formula depth "
                "<= 7 (thorough 9): every assignment of each statement's support in 3 random contexts) x {native, bridge import, pre-grounded bridge "
                "import} x {no sort, lexi, alphanum}; distinct = distinct (text, path, sort); non-trivial = table has at least one inner node")
    res.samples = [{k: json.loads(l)[k] for k in ("id", "n", "path", "sort", "ac", "text")} for l in tr["lines"][30:32]]
    res.assumptions = ["TLC evaluates AdfSem.Eval / the support-local fixpoint correctly", "beyond supports of 9 only sampled (not generated here)",
                       "canonicity of large tables is not decided by brute force (shape invariants only); see C06"]
    return res.finish()


# ------------------------------------------------------------------ C10
@register("C10")
def check_c10(prop, tier, replay, selftest):
    res = Result(prop, tier)
    binary = build_harness()
    out = os.path.join(WORK, "meta_C10.ndjson")
    os.makedirs(WORK, exist_ok=True)
    run_harness(binary, ["meta", "--tier", tier, "--out", out])
    if selftest:
        def corrupt(rec):
            for p in rec["pres"][1:]:
                if p["st"] == "ok" and len(p["names"]) >= 2 and p["calls"] and p["calls"][0]["r"][0][0] != p["calls"][0]["r"][0][1]:
                    p["names"][0], p["names"][1] = p["names"][1], p["names"][0]      # values now carry the wrong labels
                    return rec
            return None
        ok = selftest_corrupt("Trace_Meta", out, corrupt)
        print("SELFTEST %s: %s" % (prop, "binding demonstrated" if ok else "FAILED"))
        r1 = tlc_mc("ParserState", "ParserState_cache.cfg", workers=6, timeout=600)
        print("SELFTEST C10 model: a formula order that is memoised across a sort %s the conditions to the wrong statements" %
              ("attaches" if r1["violation"] and "Faithful" in r1["violation"] else "DOES NOT attach"))
        return 0 if ok and r1["violation"] else 2
    # the parser's state machine: dictionary = inverse of the name list, builds faithful after any facts / sorts / earlier builds
    res.add_mc(require_mc(tlc_mc("ParserState", "ParserState.cfg", workers=6, timeout=600)))
    res.add_mc(require_mc(tlc_mc("MC_Perm", "MC_Perm.cfg", workers=8, timeout=600)))
    res.add_mc(require_mc(tlc_mc("MC_Perm", "MC_Perm_n3s.cfg", workers=12, timeout=1200)))
    tr = tlc_trace("Trace_Meta", out, min_per_shard=5)
    res.add_trace(tr)
    seen = set()
    npres = 0
    for line in tr["lines"]:
        r = json.loads(line)
        npres += len(r["pres"])
        sorts = {p["sort"] for p in r["pres"]}
        if len(sorts) >= 2:
            seen.add(r["pres"][0]["text"])
    for gl, t in tr["tuples"]:
        if gl is None:
            continue
        if t[0] == "MISMATCH":
            rec = json.loads(tr["lines"][gl - 1])
            pi = t[5] - 1 if isinstance(t[5], int) and t[5] >= 1 else 0
            slim = dict(rec, pres=[rec["pres"][0]] + ([rec["pres"][pi]] if pi else []))
            res.violation("%s_%s_%s" % (rec["id"], json.dumps(t[4])[:40], t[5]), {"property": prop, "component": "meta", "record": slim, "mismatch": t},
                          "C10 %s presentation %s: %s  vs first: %s" % (json.dumps(t[4]), t[5], rec["pres"][pi]["text"][:160], rec["pres"][0]["text"][:160]))
        elif t[0] == "DRIFT":
            res.drift.append({"record": t[2], "what": t[3]})
    res.extra["drift_count"] = len(res.drift)
    res.evaluations = npres
    res.distinct = seen
    res.rule = ("records = base ADFs (2-5 statements with oracle; 20-32 statements without) each shown in 3-4 presentations: injective renamings "
                "(plain, keyword-like, quoted labels; digits and capitals that order differently bytewise / naturally), shuffled facts, documented "
                "whitespace, no / lexi / alphanum sorting; grounded on three back-ends and, when <= 7 statements stay undecided, complete / stable / "
                "two-valued models; evaluations = presentations; distinct = distinct base text; non-trivial = at least two different sort modes")
    res.samples = [{"id": json.loads(l)["id"], "texts": [p["text"] for p in json.loads(l)["pres"]], "sorts": [p["sort"] for p in json.loads(l)["pres"]]} for l in tr["lines"][3:5]]
    res.assumptions = ["TLC evaluates AdfSem / LexLeq correctly", "labels are ASCII, so code-point order is byte order", "the CLI's --lx / --an flags are exercised in C15"]
    return res.finish()


# ------------------------------------------------------------------ C15 (and the CLI part of C14)
def cli_trace(binary, tier, tag):
    bindir = build_repo_bins(("adf-bdd-bin",))
    out = os.path.join(WORK, "cli_%s.ndjson" % tag)
    os.makedirs(WORK, exist_ok=True)
    run_harness(binary, ["cli", "--tier", tier, "--out", out, "--cli", os.path.join(bindir, "adf-bdd"), "--work", WORK])
    return out


def cli_collect(prop, res, tr):
    for gl, t in tr["tuples"]:
        if gl is None:
            continue
        if t[0] == "MISMATCH" and t[3] == prop:
            rec = json.loads(tr["lines"][gl - 1])
            if t[4] == "exit-nonzero-opchar-label":
                kf = known_match(prop, {"label_has_opchar": True, "lib_in": "biodivine|hybrid", "predicate": "exits-successfully"})
                if kf and "is invalid" in rec.get("stderr_tail", "") + rec.get("text", "") or (kf and rec.get("exit") == 101):
                    res.known(kf, "label with an operator character under --lib %s: exit %s (%s)" % (rec["lib"], rec["exit"], rec["text"][:60].replace("\n", " ")))
                    continue
            slim = {k: v for k, v in rec.items() if k not in ("cp",)}
            res.violation("%s_%s" % (rec["id"], json.dumps(t[4])[:50]), {"property": prop, "component": "cli", "record": slim, "mismatch": t},
                          "%s %s: adf-bdd %s on %r -> exit %s, stdout %s" % (prop, json.dumps(t[4]), " ".join(rec.get("argv", [])), rec.get("text", "")[:150], rec.get("exit", rec.get("export_exit")), json.dumps(rec.get("raw", ""))[:200]))


@register("C15")
def check_c15(prop, tier, replay, selftest):
    res = Result(prop, tier)
    binary = build_harness()
    out = cli_trace(binary, tier, prop)
    if selftest:
        def corrupt(rec):
            if rec.get("kind") != "cli" or rec["exit"] != 0 or len(rec["lines"]) < 1:
                return None
            rec["lines"][0][0][0] = {"T": "F", "F": "u", "u": "T"}.get(rec["lines"][0][0][0], "T")
            return rec
        ok = selftest_corrupt("Trace_Cli", out, corrupt)
        print("SELFTEST %s: %s" % (prop, "binding demonstrated" if ok else "FAILED"))
        return 0 if ok else 2
    res.add_mc(require_mc(tlc_mc("Cli", "Cli.cfg", workers=8, timeout=600)))
    tr = tlc_trace("Trace_Cli", out, min_per_shard=10)
    res.add_trace(tr)
    cli_collect(prop, res, tr)
    seen = set()
    n = 0
    for line in tr["lines"]:
        r = json.loads(line)
        if r["kind"] == "cli":
            n += 1
            if len(r["raw"]) >= 2:
                seen.add((r["text"], r["lib"], r["sort"], tuple(r["flags"]), r["heu"]))
        elif r["kind"] == "cli_bad":
            n += 1
    res.evaluations = n
    res.distinct = seen
    res.rule = ("records = launches of the real adf-bdd binary built from the working tree: seeded files (1-5 statements; plain, keyword-like, "
                "quoted labels, documented whitespace, shuffled facts) x --lib {naive, biodivine, hybrid} x {none, --lx, --an} x flag sets (every "
                "single flag, every pair, all ten, none; cycling) x --heu values, the three modes on --grd --com --stm, and two malformed variants "
                "per file (a suspicious mutation; an undeclared statement); distinct = distinct (file, lib, sort, flags, heu); non-trivial = at least two lines printed")
    res.samples = [{k: json.loads(l)[k] for k in ("argv", "text", "exit", "raw")} for l in tr["lines"][20:23]]
    res.assumptions = ["TLC evaluates AdfSem / Cli!Sections correctly", "a flag that an arm does not implement contributes no section (DESIGN.md 6/C15)",
                       "labels do not contain the two characters ') ' (stdout tokenisation)", "--counter is not combined with semantics flags here"]
    return res.finish()


# ------------------------------------------------------------------ C12 (cargo feature configurations)
ALL_COMBOS = [(c, vl, fe) for c in ("none", "paths", "models") for vl in (True, False) for fe in (True, False)]


def combo_features(c, vl, fe):
    f = []
    if c == "paths":
        f.append("adhoccounting")
    if c == "models":
        f.append("adhoccountmodels")
    if vl:
        f.append("variablelist")
    if fe:
        f.append("frontend")
    return f


def combo_name(c, vl, fe):
    return "%s%s%s" % (c, "+vl" if vl else "", "+fe" if fe else "")


def feat_workload(binary, tag, tier):
    """the same seeded workload on a build: semantics (C01-C05), store operations + queries, histories"""
    outs = {}
    for sub, args in (("sem", ["sem", "--props", "C01,C02,C03,C04,C05", "--tier", "feat"]),
                      ("bdd", ["bdd", "--tier", "quick", "--nseq", "60" if tier == "quick" else "200"]),
                      ("hist", ["hist", "--tier", "feat"])):
        out = os.path.join(WORK, "feat_%s_%s.ndjson" % (tag, sub))
        run_harness(binary, args + ["--out", out])
        outs[sub] = out
    return outs


def trace_bdd_cfg(c, vl):
    """Trace_Bdd configuration whose model constants match the build (step-level conformance)"""
    name = "Trace_Bdd_%s_%s.cfg" % (c, "vl" if vl else "novl")
    with open(os.path.join(SPEC, name), "w") as f:
        f.write("SPECIFICATION Spec\nCONSTANTS VariableList = %s\n          AdHocCounting = %s\n          AdHocModels = %s\nPOSTCONDITION Consumed\nCHECK_DEADLOCK FALSE\n"
                % ("TRUE" if vl else "FALSE", "TRUE" if c != "none" else "FALSE", "TRUE" if c == "models" else "FALSE"))
    return name


@register("C12")
def check_c12(prop, tier, replay, selftest):
    res = Result(prop, tier)
    os.makedirs(WORK, exist_ok=True)
    default_bin = build_harness()
    base = feat_workload(default_bin, "default", tier)
    combos = ALL_COMBOS if tier == "thorough" else [("none", False, False), ("models", True, True), ("paths", False, True), ("none", True, True)]
    combos = [c for c in combos if c != ("paths", True, True)]           # that one IS the default build
    tdir = os.path.join(HARNESS, "target-feat")
    if selftest:
        combos = combos[:1]
    res.add_mc(require_mc(tlc_mc("Robdd", "Robdd_nv2_novl.cfg", workers=12, timeout=900)))
    res.add_mc(require_mc(tlc_mc("Robdd", "Robdd_nv2_models.cfg", workers=12, timeout=900)))
    res.add_mc(require_mc(tlc_mc("Robdd", "Robdd_nv2_nocount.cfg", workers=12, timeout=900)))
    nrec = 0
    seen = set()
    for (c, vl, fe) in combos:
        name = combo_name(c, vl, fe)
        binary = build_harness(features=combo_features(c, vl, fe), target_dir=tdir)
        outs = feat_workload(binary, name, tier)
        # (1) every build satisfies the same property-level predicates (same Trace modules; feature-dependent parts keyed on r.feat)
        for sub, module, kw in (("sem", "Trace_Sem", {}), ("bdd", "Trace_Bdd", {"boundary": is_reset, "cfg": trace_bdd_cfg(c, vl)}),
                                ("hist", "Trace_Bdd", {"boundary": is_reset, "cfg": trace_bdd_cfg(c, vl)})):
            tr = tlc_trace(module, outs[sub], **kw)
            res.add_trace(tr)
            for gl, t in tr["tuples"]:
                if gl is not None and t[0] == "MISMATCH":
                    rec = json.loads(tr["lines"][gl - 1])
                    slim = {k: v for k, v in rec.items() if k not in ("dump",)}
                    res.violation("%s_%s_%s" % (name, rec.get("id"), json.dumps(t[4:])[:40]),
                                  {"property": prop, "component": "feature-build:" + name, "features": combo_features(c, vl, fe), "record": slim, "mismatch": t},
                                  "C12 build %s violates %s/%s on record %s" % (name, t[3], json.dumps(t[4:]), rec.get("id")))
                elif gl is not None and t[0] == "DRIFT":
                    res.drift.append({"build": name, "record": t[2]})
        # (1b) the streaming mirror exists only with the frontend feature: its own workload under this build, judged by Trace_Frontend
        if fe:
            outf = os.path.join(WORK, "feat_%s_frontend.ndjson" % name)
            run_harness(binary, ["frontend", "--tier", "feat", "--out", outf])
            trf = tlc_trace("Trace_Frontend", outf)
            res.add_trace(trf)
            for gl, t in trf["tuples"]:
                if gl is not None and t[0] == "MISMATCH":
                    rec = json.loads(trf["lines"][gl - 1])
                    res.violation("%s_frontend_%s_%s" % (name, rec["id"], t[4]),
                                  {"property": prop, "component": "feature-build-frontend:" + name, "features": combo_features(c, vl, fe), "record": rec, "mismatch": t},
                                  "C12 build %s violates C19/%s at step %s of run %s (%s)" % (name, t[4], t[5], rec["id"], rec.get("mode")))
        # (2) record-by-record comparison with the default build
        cmp_path = os.path.join(WORK, "featcmp_%s.ndjson" % name)
        with open(cmp_path, "w") as f:
            for sub in ("sem", "bdd", "hist"):
                with open(base[sub]) as fa, open(outs[sub]) as fb:
                    A = [json.loads(x) for x in fa]
                    B = {}
                    for x in fb:
                        jb = json.loads(x)
                        B.setdefault(jb.get("id"), jb)
                    for a in A:
                        k = a.get("kind")
                        if k not in ("adf", "op", "query", "hist"):
                            continue
                        b = B.get(a.get("id"))
                        if b is None and str(a.get("id", "")).startswith("m") and not fe:
                            continue      # mirror-as-store sequences exist only in builds with the frontend feature (own random stream)
                        if b is None or b.get("kind") != k or (k == "op" and (b.get("op"), b.get("a"), b.get("b")) != (a.get("op"), a.get("a"), a.get("b"))):
                            # the seeded workload took a different course under this build: some earlier answer differed
                            rec = {"what": "diverged", "id": a.get("id"), "default": k, "variant": (b or {}).get("kind", "missing")}
                        elif k == "adf":
                            strip = lambda calls: [{x: c_[x] for x in ("c", "b", "h", "st", "r")} for c_ in calls]
                            rec = {"what": "sem", "id": a["id"], "default": strip(a["calls"]), "variant": strip(b["calls"])}
                        elif k == "op":
                            rec = {"what": "op", "id": a["id"], "default": [a["r"], a["nodes"]], "variant": [b["r"], b["nodes"]]}
                        elif k == "query":
                            rec = {"what": "query", "id": a["id"], "default": a, "variant": b, "feat_default": a["feat"], "feat_variant": b["feat"]}
                            seen.add((name, a["id"]))
                        else:
                            strip = lambda calls: [[c_["c"], c_["a"], c_["a_st"]] for c_ in calls]
                            rec = {"what": "hist", "id": a["id"], "default": strip(a["calls"]), "variant": strip(b["calls"])}
                        rec["kind"] = "featcmp"
                        rec["build"] = name
                        f.write(json.dumps(rec) + "\n")
                        nrec += 1
        if selftest:
            def corrupt(rec):
                if rec.get("what") != "query":
                    return None
                rec["variant"]["depth"] += 1
                return rec
            ok = selftest_corrupt("Trace_Feat", cmp_path, corrupt)
            print("SELFTEST %s: %s" % (prop, "binding demonstrated" if ok else "FAILED"))
            return 0 if ok else 2
        tr = tlc_trace("Trace_Feat", cmp_path)
        res.add_trace(tr)
        for gl, t in tr["tuples"]:
            if gl is not None and t[0] == "MISMATCH":
                rec = json.loads(tr["lines"][gl - 1])
                res.violation("%s_cmp_%s_%s" % (name, rec["id"], json.dumps(t[4])[:40]),
                              {"property": prop, "component": "feature-compare:" + name, "features": combo_features(c, vl, fe), "record": rec, "mismatch": t},
                              "C12 build %s differs from the default build: %s on %s" % (name, json.dumps(t[4]), rec["id"]))
    shutil.rmtree(tdir, ignore_errors=True)
    # (3) the CLI built under each feature set: same launches, export / import, directory sessions, judged by Trace_Cli
    cli_tdir = os.path.join(VERIF, "target-repo-feat")
    cli_launches = 0
    for (c, vl, fe) in ([] if selftest else combos):
        name = combo_name(c, vl, fe)
        feats = combo_features(c, vl, fe)
        bindir = build_repo_bins(("adf-bdd-bin",), extra=("--no-default-features",) + (("--features", ",".join(feats)) if feats else ()), target_dir=cli_tdir)
        outc = os.path.join(WORK, "feat_%s_cli.ndjson" % name)
        run_harness(default_bin, ["cli", "--tier", "feat", "--out", outc, "--cli", os.path.join(bindir, "adf-bdd"), "--work", WORK])
        trc = tlc_trace("Trace_Cli", outc, min_per_shard=10)
        res.add_trace(trc)
        cli_launches += trc["records"]
        for gl, t in trc["tuples"]:
            if gl is None or t[0] != "MISMATCH":
                continue
            rec = json.loads(trc["lines"][gl - 1])
            if t[4] == "exit-nonzero-opchar-label" and known_match("C15", {"label_has_opchar": True, "lib_in": "biodivine|hybrid", "predicate": "exits-successfully"}):
                continue                      # F9 is a finding of C15 in every build, not a feature difference
            slim = {k: v for k, v in rec.items() if k not in ("cp",)}
            res.violation("%s_cli_%s_%s" % (name, rec.get("id"), json.dumps(t[4])[:40]),
                          {"property": prop, "component": "feature-build-cli:" + name, "features": feats, "record": slim, "mismatch": t},
                          "C12 CLI built with [%s] violates %s/%s on %s" % (",".join(feats), t[3], json.dumps(t[4]), rec.get("id")))
    shutil.rmtree(cli_tdir, ignore_errors=True)
    res.extra["cli_launches_under_feature_builds"] = cli_launches
    res.evaluations = nrec
    res.distinct = seen
    res.extra["feature_builds"] = [combo_name(*c) for c in combos]
    res.rule = ("records = the same seeded workload (every semantics variant on ~500 ADFs, store operation sequences with all queries, call histories) "
                "run on a harness built under each feature set and on the default build, paired record by record; distinct = distinct (build, diagram query); "
                "non-trivial = every query record (paths, models, depth, dependencies, impacts, cubes)")
    res.samples = [{"build": combo_name(*combos[0]), "features": combo_features(*combos[0])}]
    res.assumptions = ["TLC evaluates the Trace modules correctly", "cargo features are forwarded by the harness crate to adf_bdd (default-features = false)",
                       "quick tier: 4 of the 11 non-default combinations; thorough: all"]
    return res.finish()


# ------------------------------------------------------------------ C16 / C17 (web service)
import fcntl

SERVER_RULE = ("records = requests, responses, database commands and database snapshots of the unmodified adf-bdd-server binary between a raw "
               "HTTP client (one cookie jar per principal) and the MongoDB wire stub: the straight-line happy path (both parsings x all six "
               "strategies, double solve, unparseable code), seeded multi-user scenarios (1-3 principals; register / login with right, wrong and "
               "foreign credentials / logout / info / rename / delete account / add incl. unparseable, panicking and unnamed problems / solve / "
               "get / list / delete, probes of foreign names, anonymous requests, requests before a task finished), and the two race shapes of the "
               "known findings replayed with the stub holding a command; distinct = distinct (request, response status, shown problem); non-trivial = "
               "response carries at least one problem with a stored result")


def server_trace(binary, tier, tag):
    bindir = build_repo_bins(("adf-bdd-server",), extra=("--config", "profile.dev.package.argon2.opt-level=3"))
    out = os.path.join(WORK, "server_%s.ndjson" % tag)
    os.makedirs(WORK, exist_ok=True)
    args = ["server", "--tier", tier, "--out", out, "--stub", os.path.join(os.path.dirname(binary), "mongostub"),
            "--server", os.path.join(bindir, "adf-bdd-server"), "--work", WORK]
    # the server binds 0.0.0.0:8080 unconditionally: give the session a private network namespace (loopback only) when the
    # kernel allows it, so that nothing else on the machine can hold or disturb the ports; otherwise serialise on a lock
    try:
        private = subprocess.run(["unshare", "-n", "sh", "-c", "ip link set lo up"], stdout=subprocess.DEVNULL, stderr=subprocess.DEVNULL,
                                 timeout=20).returncode == 0
    except Exception:
        private = False
    if private:
        try:
            run_harness("unshare", ["-n", "sh", "-c", 'ip link set lo up && exec "$0" "$@"', binary] + args, timeout=7200)
        except ToolError as e:
            raise ToolError("web service session failed (the server did not start?): %s" % e)
        return out
    lock = open("/tmp/.adf-obdd-verif-server.lock", "w")     # machine-wide (created on demand): any copy of /verif competes for the same ports
    fcntl.flock(lock, fcntl.LOCK_EX)
    try:
        try:
            run_harness(binary, args, timeout=7200)
        except ToolError as e:
            raise ToolError("web service session failed (port 8080 / 27117 busy, or the server did not start): %s" % e)
    finally:
        fcntl.flock(lock, fcntl.LOCK_UN)
        lock.close()
    return out


def server_collect(prop, res, tr):
    seen = set()
    nreq = 0
    for line in tr["lines"]:
        r = json.loads(line)
        if r.get("kind") != "http":
            continue
        nreq += 1
        shown = []
        if r["status"] == 200 and r["op"] == "get":
            shown = [r["body"]["problem"]]
        elif r["status"] == 200 and r["op"] == "list":
            shown = r["body"]["problems"]
        for pr in shown:
            if any(e["type"] == "Some" and e["strategy"] != "Parse" for e in pr["per"]):
                seen.add(hashlib.sha1(json.dumps([r["op"], pr["code"], [(e["strategy"], e["type"], [m["ac"] for m in e["models"]]) for e in pr["per"]]]).encode()).hexdigest())
    bigc = [t for gl, t in tr["tuples"] if gl is not None and t[0] == "BIGCODE" and t[3] >= 9]
    res.extra["composed_codes_judged"] = {"judgements": len(bigc), "statements": sorted(set(t[3] for t in bigc)),
                                          "how": "codes of 9-16 statements are parsed by TLC, split into the connected components of their dependency relation and judged block-wise with AdfCompose (answers and pictures)"}
    for gl, t in tr["tuples"]:
        if gl is not None and t[0] == "DRIFT":
            res.drift.append({"record": t[2], "what": t[3]})
    res.extra["drift_count"] = len(res.drift)
    res.extra["footprint_conformance"] = ("every request's database commands match ServerShapes!HandlerCommands (commands, collections, filter keys) "
                                          "and every task write uses {name, username}" if not res.drift else "drift: see 'drift'")
    for gl, t in tr["tuples"]:
        if gl is None or t[0] != "MISMATCH":
            continue
        what = t[4][0] if isinstance(t[4], list) else t[4]
        # somebody else's running task showing up in my response is a leak between users (C17) as much as a wrong task status (C16)
        if t[3] != prop and not (prop == "C17" and what == "running-task-nobody-started-for-this-problem"):
            continue
        rec = json.loads(tr["lines"][gl - 1])
        racetag = t[5]
        sig = None
        if racetag == "rename-window" and what == "foreign-problem-in-response":
            sig = {"race": "rename-window", "predicate": "foreign-problem-in-response"}
        elif racetag == "stale-task-write" and what in ("stored-models-differ-from-definition-for-code", "graph-not-faithful"):
            sig = {"race": "stale-task-write", "predicate": "stored-result-of-other-code"}
        elif racetag == "delete-window" and what == "foreign-problem-in-response":
            sig = {"race": "delete-window", "predicate": "foreign-problem-in-response"}
        elif racetag == "stale-session" and what in ("foreign-problem-in-response", "foreign-document-deleted-or-reowned"):
            sig = {"race": "stale-session", "predicate": "foreign-access-through-stale-cookie"}
        kf = known_match(prop, sig) if sig else None
        if kf:
            res.known(kf, "replayed on the binary with the stub as scheduler: %s (record %s)" % (what, rec["id"]))
            continue
        # replay payload: the whole scenario up to the failing record
        j = gl - 1
        while j > 0 and not is_reset(tr["lines"][j]):
            j -= 1
        seq = [json.loads(x) for x in tr["lines"][j:gl]]
        slim = [({k: v for k, v in s.items() if k not in ("dump", "log")} if s.get("kind") == "db" else s) for s in seq[:-1]] + [seq[-1]]
        res.violation("%s_%s" % (rec["id"], json.dumps(t[4])[:50]), {"property": prop, "component": "server", "scenario": slim, "mismatch": t},
                      "%s %s at %s: %s %s -> %s" % (prop, json.dumps(t[4]), rec["id"], rec.get("op", "db snapshot"), json.dumps(rec.get("args", ""))[:160], rec.get("status", "")))
    res.evaluations = nreq
    res.distinct = seen
    res.rule = SERVER_RULE
    gets = [json.loads(l) for l in tr["lines"][:400] if '"op":"get"' in l and '"status":200' in l]
    res.samples = [{"op": g["op"], "args": g["args"], "status": g["status"], "code": g["body"]["problem"]["code"],
                    "results": [(e["strategy"], e["type"], [m["ac"] for m in e["models"]]) for e in g["body"]["problem"]["per"]]} for g in gets[2:4]] or [{"note": "no get"}]


def _server_check(prop, tier, selftest, mc_cfgs, corrupt):
    res = Result(prop, tier)
    binary = build_harness()
    out = server_trace(binary, tier, prop)
    if selftest:
        ok = selftest_corrupt("Trace_Server", out, corrupt, boundary=is_reset)
        print("SELFTEST %s: %s" % (prop, "binding demonstrated" if ok else "FAILED"))
        return 0 if ok else 2
    for cfg in mc_cfgs:
        res.add_mc(require_mc(tlc_mc("Server", cfg, workers=12, timeout=3000)))
    tr = tlc_trace("Trace_Server", out, boundary=is_reset, min_per_shard=30)
    res.add_trace(tr)
    server_collect(prop, res, tr)
    # conformance with the ACTIONS of Server.tla, scenario by scenario (drift only)
    sc = tlc_scenarios("Trace_ServerModel", "Trace_ServerModel.cfg", out, is_reset)
    explained = [x for x in sc if not x.get("skipped") and x.get("reached") == x.get("records")]
    stuck = [x for x in sc if not x.get("skipped") and x.get("reached") != x.get("records")]
    for x in sc:
        res.states += x.get("states", 0)
        res.transitions += x.get("transitions", 0)
    res.extra["action_level_conformance"] = {
        "scenarios_fully_explained_by_Server_tla": len(explained), "scenarios_not_explained": len(stuck),
        "meaning": "every request = Start ; Step* ; response with the recorded status, TaskStep interleaved where TLC needs it; at observed quiescence the model has no task "
                   "left and its documents / accounts equal the database snapshot",
        "not_explained": [{"scenario": x["id"], "reached": x.get("reached"), "records": x.get("records"),
                           "stuck_at": {k: v for k, v in (x.get("stuck_at") or {}).items() if k in ("id", "kind", "op", "args", "status", "p")}, "error": x.get("error", "")[-200:]} for x in stuck][:10]}
    for x in stuck:
        res.drift.append({"scenario": x["id"], "what": "not explained by the actions of Server.tla beyond record %s" % x.get("reached")})
    res.extra["drift_count"] = len(res.drift)
    log("Server.tla action-level conformance: %d scenarios explained, %d not" % (len(explained), len(stuck)))
    res.assumptions = ["TLC evaluates AdfSem / AdfSyntax / GraphOK correctly", "the stub implements the subset of MongoDB semantics the server relies on (equality filters, $set, "
                       "replacement, unique index); unknown commands are reported", "cookies are opaque bearer tokens held by a well-behaved client (one jar per principal)",
                       "the 120 s compute timeout and cookie expiry are covered by the model only", "cryptographic strength is not assessed"]
    return res.finish()


@register("C16")
def check_c16(prop, tier, replay, selftest):
    if selftest:
        # the model distinguishes the shipped and the repaired continuation, and knows the stale write
        r1 = tlc_mc("Server", "Server_c16_f8.cfg", workers=8, timeout=600)
        r2 = tlc_mc("Server", "Server_c16_strict.cfg", workers=8, timeout=600)
        print("SELFTEST C16 model: shipped continuation %s the forever-running task; strict results %s the stale write" %
              ("rediscovers" if r1["violation"] else "MISSES", "rediscovers" if r2["violation"] else "MISSES"))
        r3 = tlc_mc("Server", "Server_c16_lost.cfg", workers=8, timeout=600)
        print("SELFTEST C16 model: a rename while a task runs %s the task's result (third race shape, model only)" %
              ("loses" if r3["violation"] and "NoLostResult" in r3["violation"] else "DOES NOT lose"))
        if not (r1["violation"] and r2["violation"] and r3["violation"]):
            return 2
    def corrupt(rec):
        if rec.get("kind") != "http" or rec.get("op") != "get" or rec.get("status") != 200:
            return None
        for e in rec["body"]["problem"]["per"]:
            if e["type"] == "Some" and e["strategy"] != "Parse" and e["models"] and e["models"][0]["ac"]:
                e["models"][0]["ac"][0] = 1 if e["models"][0]["ac"][0] != 1 else 0
                return rec
        return None
    return _server_check(prop, tier, selftest, ["Server_c16.cfg"] + (["Server_c16_big.cfg"] if tier == "thorough" else []), corrupt)


@register("C17")
def check_c17(prop, tier, replay, selftest):
    if selftest:
        r1 = tlc_mc("Server", "Server_c17_mut.cfg", workers=8, timeout=600)
        r2 = tlc_mc("Server", "Server_c17_strict.cfg", workers=8, timeout=600)
        print("SELFTEST C17 model: dropping the owner filter from get %s an unexplained foreign read; strict isolation %s the rename window" %
              ("produces" if r1["violation"] and "NoUnexplainedRead" in r1["violation"] else "DOES NOT produce", "rediscovers" if r2["violation"] else "MISSES"))
        r3 = tlc_mc("Server", "Server_c17_dev_strict.cfg", workers=8, timeout=600)
        print("SELFTEST C17 model: with a second device, a session that outlived its account %s somebody else's problems (F12)" %
              ("reaches" if r3["violation"] and "NoStaleSessionAccess" in r3["violation"] else "DOES NOT reach"))
        if not (r1["violation"] and r2["violation"] and r3["violation"]):
            return 2
    def corrupt(rec):
        if rec.get("kind") != "http" or rec.get("op") != "get" or rec.get("status") != 200 or rec.get("p") == 0:
            return None
        rec["p"] = rec["p"] % 3 + 1          # the same answer, handed to somebody else
        return rec
    return _server_check(prop, tier, selftest, ["Server_c17.cfg", "Server_c17_dev.cfg"] + (["Server_c17_big.cfg", "Server_c17_dev_big.cfg"] if tier == "thorough" else []), corrupt)
