#!/bin/bash
# runs every thorough check once, sequentially; prints one summary line per check (used through `vp run`)
# optional arguments: the property numbers to run, in order (default: all)
cd "$(dirname "$0")/.."
ids="${@:-01 02 03 04 05 06 07 08 09 10 11 12 13 14 15 16 17 18 19 20}"
for i in $ids; do
  s=$(date +%s); ./check C$i --tier thorough > thorough_C$i.txt 2>&1; rc=$?; e=$(date +%s)
  echo "C$i exit=$rc $((e-s))s violations=$(grep -c '^VIOLATION' thorough_C$i.txt) known=$(grep -c '^KNOWN-FINDING' thorough_C$i.txt) $(grep -E 'TOOL-ERROR' thorough_C$i.txt | head -1 | cut -c1-200)"
done
