#!/usr/bin/env python3
"""Regenerates MANIFEST.json from the table below (kept as code so that it stays consistent)."""
import json, os, subprocess
V = os.path.dirname(os.path.dirname(os.path.abspath(__file__)))

CHECKS = {}

def add(pid, text, note, technique, ref):
    CHECKS[pid] = {
        "property_id": pid,
        "quick_cmd": "./check %s --tier quick" % pid,
        "thorough_cmd": "./check %s --tier thorough" % pid,
        "evidence_file": "/verif/evidence/%s.json" % pid,
        "replay_cmd_template": "./check %s --replay {path}" % pid,
        "engine": "tla-trace",
        "level_claimed": {"category": "model_checking", "text": text, "design_ref": ref},
        "level_note": note,
        "technique": technique,
    }

SEM_NOTE = ("Trusted: TLC 1.8 evaluating spec/AdfSem.tla; the harness logging what the library returned (demonstrated by "
            "--selftest: a corrupted record is rejected). Bounded: exhaustive only for ADFs with <= 2 statements on the code side "
            "and <= 3 (structured sample) on the model side; larger ADFs are seeded samples.")


# additions of the second build round: appended to the level texts after the table below is built
ROUND2 = {
 "C01": " Frameworks of 9-16 statements are composed of independent blocks and observer statements; TLC verifies the decomposition on the logged ASTs and derives the answer block-wise with AdfCompose, whose composition theorem MC_Compose model-checks against the direct definitions for every ADF of five small shapes.",
 "C06": " Long sequences on large stores (7-10 variables, up to 250 nodes) are judged with the integer-assignment operators of BigBdd (all denotations built bottom-up in one pass; agreement with RobddOps is checked on every small table).",
 "C14": " Deep frameworks (40-100 statements, diagrams across the 63/64/65-level boundary) are round-tripped as well (this found F16); the state a round trip hands back is audited like any other store state and a failed audit is a C14 verdict.",
 "C18": " A quarter of the sequences live on 2-6 positions scattered over a store up to 140 000 positions wide (word and bitmap-container boundaries); TLC maps real positions back through the record's position list.",
 "C19": " FrontendHangup.tla adds the last store being dropped in mid-run (the relay must keep mirroring - proved unbounded with TLAPS in proofs/FrontendHangupProof, 119 obligations; a forward-first relay is shown to fail); scheduled runs of the real chain include the hang-up, streams of 100-400 nodes forwarded in bursts across 32/64 message boundaries, and free-running runs of 120-200 nodes.",
}
ROUND2["C02"] = ROUND2["C03"] = ROUND2["C04"] = ROUND2["C05"] = ROUND2["C01"]
ROUND2["C03"] += " C03-C05 also run frameworks with 256-512 stable models (mutual-attack pairs, exactly-one triples, self-supporters)."
ROUND2["C04"] = ROUND2["C05"] = ROUND2["C03"]
ROUND2["C07"] = ROUND2["C13"] = ROUND2["C06"]
ROUND2["C11"] = " Deep frameworks (40-100 statements) answer a call history as well; where they decompose into constant statements and observers TLC judges the answers with AdfCompose. The memo tables of the large stores (BigBdd records) are audited entry by entry."

add("C01", "TLC checks that the transcribed grounded_internal (AdfAlgo) equals the least fixpoint (AdfSem) for every ADF over 2 statements "
    "(thorough: 2197 three-statement ADFs) and validates, record by record, grounded answers of the real native/biodivine/hybrid back-ends "
    "against the definition recomputed from the logged formula ASTs.", SEM_NOTE,
    "TLA+ definitional semantics + TLC trace validation of recorded library answers; TLC model checking of the algorithm transcription", "6/C01")
add("C02", "As C01 for complete models: TLC proves odometer+filter = set of fixpoints of Gamma on all small ADFs and judges every observed "
    "enumeration (no duplicates, exact set, grounded first).", SEM_NOTE,
    "TLA+ definitional semantics + TLC trace validation; TLC model checking of the algorithm transcription", "6/C02")
add("C03", "As C01 for the enumerate-and-check stable variants (plain, prefilter, both rewritings; native, biodivine, hybrid +/- pre-grounding); "
    "TLC also proves the implementation's all-positions stability test equal to the textbook definition on all small ADFs.", SEM_NOTE,
    "TLA+ definitional semantics + TLC trace validation; TLC model checking of the algorithm transcription", "6/C03")

add("C04", "TLC checks the transcription of two_val_model_counts_logic (CountSearch.tla, both heuristics) against the definition of stable "
    "models for all 256 two-statement ADFs (thorough: 4394 three-statement cases) and judges every observed answer of "
    "stable_count_optimisation_heu_{a,b} on native/hybrid objects (10 260 ADFs incl. a family of self-referential conditions). --selftest shows the unrepaired "
    "transcription rediscovers the lost-model defect. Step-level conformance (hook H3b): every entry (interpretation, will_be, depth) of the real recursion "
    "must be produced in the same pre-order by CountSearch!Visits - which pins both heuristics, the cube order and the pruning (drift only).",
    SEM_NOTE, "TLA+ transcription of the counting search model-checked against the definition; TLC trace validation of recorded answers", "6/C04")
add("C05", "NgSearch.tla models nogood_internal with a nondeterministic heuristic (= every contract-abiding custom heuristic): TLC proves "
    "exactness, stack synchrony, a step bound and (under fairness) termination for all two-statement ADFs (thorough: 512 three-statement ADFs). "
    "On the code side every built-in heuristic, Rand under several seeds, scripted custom heuristics and the channel variants are run, and the REAL "
    "choice tree of the search is enumerated path by path for all ADFs with <= 2 and a quarter of those with 3 statements; TLC judges every answer. "
    "Channel variants also run on bounded (rendezvous / capacity 1) channels with a late, slow consumer. Step-level conformance: with the search tracer "
    "(hook H3) the loop-carried state of every iteration of the real loop is recorded and Trace_NgSearch requires each to be reached by one NgSearch!Iterate "
    "step with the logged pick (2 736 traced runs, drift only).",
    SEM_NOTE + " Termination on the code side is a 20 s wall-clock budget per call plus a heuristic-call budget of 4*3^n+16.",
    "TLA+ state machine of the learning loop model-checked (safety + liveness); exhaustive choice-tree replay on the real code; TLC trace validation", "6/C05")

BDD_NOTE = ("Trusted: TLC evaluating spec/RobddOps.tla; hook H1 (Bdd::verif_dump, read-only) exporting the real memo tables; the harness "
            "logging the real node table after each operation (--selftest: a corrupted result handle is rejected at exactly that record). "
            "Bounded: the two-variable state graph is closed (any history of any length); three variables up to 9 nodes; on the code side "
            "seeded operation sequences over 2-5 variables.")
add("C06", "Robdd.tla is a line-by-line transcription of node/restrict/if_then_else with all memo tables; TLC closes its state graph for two "
    "variables (2036 states, 1.26 M transitions: EVERY operation history) with Reduced/Ordered/NoDup/Canonical/UniqOK/CachesOK/DepsOK/CountsOK as "
    "invariants. Real stores (fresh, natively compiled, bridge-imported, re-imported, rebuilt) are driven with random operations; TLC evaluates the same "
    "invariants on every logged real node table and unique table, and steps the model from the real pre-state to predict the real post-state "
    "(handle numbers and every memo entry; mismatch = drift, reported, not an alarm).", BDD_NOTE,
    "TLA+ implementation-level store model, TLC exhaustive state graph + TLC trace validation of real node tables and memo tables", "6/C06")
add("C07", "Action property StepOK (result denotes the named function of the operands; old table is a prefix of the new) is checked by TLC on every "
    "transition of the closed two-variable graph and on every recorded operation of real stores, denotations being computed by TLC from the logged "
    "real node table.", BDD_NOTE,
    "TLA+ action property on the store model (all transitions) + TLC trace validation of recorded operations", "6/C07")
add("C13", "Definitional counterparts (explicit path enumeration, |Den|, dependency by cofactor inequality, cube cover/disjointness) are evaluated by TLC "
    "on the logged real table for every query answer (paths, models naive/memoised, depth, dependencies, both impact measures, path cubes for every goal "
    "value and goal variable, more_models) and on the real count cache / dependency lists after every operation; CountsOK/DepsOK are invariants of the "
    "model-checked store model.", BDD_NOTE + " Counts are machine integers; exactness is claimed for depth <= 62. Path cubes of the two constant "
    "diagrams are DONT_CARE (the library's own test pins 'no cube').",
    "TLA+ definitional query semantics evaluated by TLC on recorded real tables; invariants of the model-checked store model", "6/C13")

add("C11", "Call histories on one Adf object: every answer after a history is judged by TLC against the definition recomputed from the ASTs and "
    "against the answer of a fresh object; the whole history is run twice and must agree element by element (handles, order); adf.ac must be "
    "unchanged; after the history the real memo tables (H1) are audited entry by entry against the real node table. Model side: StepOK + CachesOK "
    "on every transition of the closed two-variable store graph (results independent of memo contents), and AdfRobdd.tla: the API-session machine in which "
    "grounded / complete / stable are transcribed ON the store model (AdfRobddOps, predicting raw handles) - any sequence of calls and extra formulas on one "
    "object for all 256 two-statement ADFs yields the definitional answers and keeps the store invariants. Trace_Bdd steps the same operators along recorded "
    "histories from the real pre-state and compares every raw answer and the final node table (drift only). The documented repair step (fix_import) is one "
    "of the call kinds; a determinism pre-filter runs a fixed nine-call history twice on 20 000 (thorough 120 000) random ADFs and hands every differing pair to TLC.", BDD_NOTE,
    "TLC trace validation of call histories (after-history vs definition vs fresh vs repeated run) + memo-table audit; store model checked exhaustively", "6/C11")
add("C14", "Persist.tla runs an original store and an imported / rebuilt copy in lock-step through every operation history over two variables "
    "(4072 states, 2.5 M transitions): identical tables, identical results, regenerated dependency lists and counts exact. On the code side a serde "
    "round trip + fix_import or a rebuild from decimal strings through Bdd::from(Vec<BddNode>) happens at a random point of seeded call histories "
    "(native and bridged ADFs) and of raw store sequences; TLC checks identical node numbering, identical roots, equal answers with the SAME handles for all "
    "later calls and an identical node table at the end. CLI side: CliFs.tla is the directory machine (source read as text or --import state, --export creates the "
    "file only if nothing exists under the name); TLC checks every initial directory of four names x three invocations, TLAPS proves never-overwrite unbounded "
    "(proofs/CliFsProof), and Trace_Cli follows random sessions of the real binary with CliFsOps!FsAfter (bystander files, exports onto sources / earlier exports / "
    "sibling names; directory fingerprinted after every invocation).",
    BDD_NOTE + " The CLI launches themselves are shared with the C15 runner.",
    "TLA+ lock-step model of original and persisted copy model-checked; TLC trace validation of real round trips in mid-history", "6/C14")

add("C18", "NoGoods.tla: every add sequence of <= 3 (thorough: 4) nogoods over 3 positions under all modes incl. mode switches; after every step "
    "the four clauses of the property and their closure variant are evaluated for all 27 partial interpretations (14400 states). Real NoGoodStore: "
    "seeded add sequences over 2-6 positions; TLC judges every observed conclusion / conflict / closure by brute force over the total assignments "
    "and replays the adds through the transcription (bucket contents and answers must be predicted exactly; drift only). --selftest shows the "
    "unrepaired fold / Subsume transcriptions rediscover both repaired defects.",
    "Trusted: TLC evaluating spec/NoGoodsOps.tla; hook H2 (read-only bucket export, public wrapper of conclusion_closure). Bounded: 3 positions "
    "exhaustively on the model, <= 6 positions sampled on the code. The empty nogood is a listed known finding (F10).",
    "TLA+ transcription of the nogood store model-checked against reference notions; TLC trace validation of recorded store answers", "6/C18")

add("C20", "Both odometers are transcribed as step functions on their private state (Iterators.tla); MC_Iter runs them as machines for all 364 "
    "vectors of length <= 5 (7455 states): never a wrong or repeated item, exactly the 2^k / 3^k refinements at exhaustion, first item = the vector, "
    "nothing after the first None, termination under fairness. The real iterators are run on the same 364 vectors and on seeded longer ones; TLC "
    "judges the raw items (decided positions untouched, handles verbatim, no duplicates, exact count) and compares the emission order with the model (drift); "
    "vectors with 12-130 undecided positions (every machine-word boundary of 2^k / 3^k) are drawn for 40 items and followed by the model.",
    "Trusted: TLC evaluating spec/Iterators.tla; harness logging the iterators' raw output. Bounded: length <= 5 exhaustively, <= 10 sampled.",
    "TLA+ state machines of both odometers model-checked (safety + liveness); TLC trace validation of real iterator output", "6/C20")

add("C19", "Frontend.tla models producer, relay and receiver with one action per node creation and per single try_recv of a poll, so producer "
    "steps fall inside polls: TLC explores every interleaving and every requested handle for streams of 6 nodes (16471 states; thorough 9 nodes) with "
    "the prefix invariant (relay o c1 = prod, recv o c2 = relay), the found-flag rule, monotonicity and equality at quiescence. Real stores: the real "
    "producer's messages are forwarded one at a time between real Bdd::recv calls following exhaustive short and seeded long schedules, plus free-running "
    "threads; TLC validates every observed table against the producer's final table and iterates the model's Begin/Take steps to predict every poll (drift). "
    "proofs/FrontendProof.tla (TLAPS, 145 obligations, run by the check) proves the chain equations and the answer rule inductive for ANY stream length.",
    "Trusted: TLC evaluating spec/Frontend.tla; crossbeam channel lengths as the count of unconsumed messages. Bounded: <= 9 streamed nodes on the model; "
    "schedules of length 3 exhaustively and <= 40 sampled on the code; chains of length 2.",
    "TLA+ model of the streaming chain model-checked over all interleavings; TLC trace validation of scheduled and threaded real runs", "6/C19")

add("C08", "AdfSyntax.tla is a recursive-descent recogniser of the documented grammar over code points, in a strict and a lenient (blanks anywhere) "
    "variant. MC_Syntax: Parse(Render(ast, layout)) = ast for every formula to depth 2 over a keyword-like and a quoted label and every documented "
    "layout, and every single-token damage leaves even the lenient grammar. Real parser: seeded well-formed files and suspicious mutations; TLC classifies "
    "each text itself (strict accepts = MUST_ACCEPT, lenient rejects = MUST_REJECT, else DONT_CARE) and judges verdict, labels, declaration order, the "
    "meaning of every parsed formula and the natively compiled diagram of every statement; rejected texts also go through the real CLI in all three modes.",
    "Trusted: TLC evaluating spec/AdfSyntax.tla; the harness converting the parser's public Formula values to JSON. Bounded: texts <= 156 characters, "
    "<= 4 statements; whitespace outside the documented places is DONT_CARE.",
    "TLA+ recogniser of the documented grammar (round trip model-checked) as three-valued oracle; TLC trace validation of real parser / CLI observations", "6/C08")

add("C09", "Each compiled ADF is validated individually by TLC from the logged ASTs, roots and complete node table: statement by statement, for every "
    "assignment of the statement's support (all variables for <= 5 statements) in several contexts, walking the logged table equals evaluating the written "
    "formula; for the pre-grounded import TLC computes the grounded interpretation with support-local validity tests (so 20-40 statement ADFs are decided) "
    "and substitutes it. Native, bridge and pre-grounded bridge paths under all three sort modes; table shape invariants on every table.",
    "Trusted: TLC evaluating Eval / the support-local least fixpoint; the harness mapping formula atoms to the reported variable positions by label. "
    "Bounded: supports <= 9, 3 contexts for the non-support variables of large ADFs.",
    "TLC trace validation of compiled diagrams against the written formulas (exhaustive on each statement's support), incl. TLC-computed grounded substitution", "6/C09")
add("C10", "MC_Perm: Sem(pi.adf) = pi.Sem(adf) for grounded / complete / two-valued / stable, every ADF over 2 statements and 2197 over 3 x all "
    "permutations - the metamorphic relation is a theorem of the specification. Real library: each base ADF in 3-4 presentations; TLC reads every answer "
    "back as a map from base statement to value through the reported labels and requires equal sets of maps across presentations and back-ends, equality "
    "with the definition for small bases, preserved labels, and byte-wise order under lexicographic sorting.",
    "Trusted: TLC evaluating AdfSem; ASCII labels. Bounded: 20-32 statement instances only when the grounded interpretation leaves <= 7 statements undecided "
    "for the model-enumerating semantics.",
    "TLA+ permutation lemma model-checked; TLC trace validation of answers across presentations (relational + oracle)", "6/C10")

add("C15", "Cli.tla models the three arms of bin/src/main.rs as implemented (which flags each honours, print order); TLC checks over the whole "
    "flag space (3 x 2^10 states) the documented order grounded < complete < stable and that the arms agree on the flags they share. The real binary, built "
    "from the working tree, is launched on seeded files over libs x sorting flags x flag sets x heuristics; TLC derives the expected sections from Cli!Sections "
    "and the definitional semantics of the logged ASTs, splits stdout by the expected section sizes and compares every slice as a set of label->value maps, "
    "each exactly once, with the label order the sorting flag prescribes; malformed files (classified by TLC's own recogniser) must exit non-zero with empty stdout.",
    "Trusted: TLC evaluating AdfSem / AdfSyntax / Cli; stdout tokenisation in the harness. Reading fixed in DESIGN.md: a flag an arm does not implement "
    "contributes no section. Labels with operator characters under biodivine/hybrid are the listed known finding F9.",
    "TLA+ model of the CLI arms model-checked over the flag space; TLC trace validation of real CLI runs against definitional semantics", "6/C15")

add("C12", "The cargo features are CONSTANTS of the store model (RobddOps): TLC closes the two-variable state graph under each store-relevant setting "
    "(no variable lists; ad-hoc model counting; no counting). The harness is rebuilt from /repo under each feature combination (quick: 4, thorough: all 11 "
    "non-default ones) and runs the same seeded workload as the default build (every semantics variant, store operations with all queries in varying order, "
    "call histories); every build's trace is validated with the same Trace modules (model constants matching the build) and compared record by record with "
    "the default build's answers by TLC, the documented memoisation exception being keyed on the logged feature set. The adf-bdd binary itself is built "
    "under each feature set too and a CLI workload (launches, export / import, directory sessions) is judged by Trace_Cli per build.",
    "Trusted: TLC evaluating the Trace modules; cargo forwarding the harness features to adf_bdd. The frontend feature only adds the streaming API (C19); "
    "its absence is covered by building and running the whole workload without it.",
    "TLA+ store model model-checked per feature constant setting; TLC trace validation of the same workload under each feature build + TLC record-by-record comparison with the default build", "6/C12")

SERVER_NOTE = ("Trusted: TLC evaluating AdfSem / AdfSyntax / GraphOK / Server.tla; the MongoDB wire stub (equality filters, $set, replacement, unique index, "
               "hold/release of commands) standing in for MongoDB; the raw HTTP client keeping one cookie jar per principal. Bounded: model with 1-2 principals, "
               "2 account names, 1-2 problem names, <= 8 (thorough 10) requests interleaved at database-command granularity; code side: seeded sequential "
               "scenarios plus the two race shapes. Real-time behaviour (120 s timeout, cookie expiry) and cryptographic strength are outside the model. "
               "Listed known findings: F11a (rename window), F11b (stale task write).")
add("C16", "Server.tla models handlers and background tasks with one action per database command / in-memory step; TLC explores all interleavings within the "
    "bound with ghost causes: ResultsMatchCode, ErrorNotEmpty, EndedNotRunning hold and every wrong result is explained by the listed stale-write race (nothing "
    "'unexplained'); --selftest shows the shipped continuation leaves a panicked task running forever and the strict invariant finds the stale write. The "
    "unmodified server binary runs against the wire stub; for every problem shown or stored TLC parses the stored code with its own recogniser, recomputes the "
    "definitional answers and compares models and graphs (GraphOK: reachable node set, root labels, lo/hi walk = acceptance condition under the shown model), "
    "for both parsings and all six strategies; unparseable and panicking code must end as Error, solving it be refused, no ended task be reported running, and "
    "a task be shown as running only to the person who started it for that problem (slow-task scenario with two users owning same-named problems). Footprint "
    "conformance: each request's database commands are compared with ServerShapes!HandlerCommands (commands, collections, filter keys; drift only). "
    "Action-level conformance (Trace_ServerModel, drift only): every scenario must be a behaviour of Server.tla's own Start / Step / TaskStep actions with the "
    "recorded statuses, and at observed quiescence the model's documents and accounts must equal the database snapshot (TLC infers task timing; all scenarios explained). "
    "Grant tracking: a solve is refused (409) only if that person was granted it for that problem before, and every granted solve has left a result at quiescence; "
    "the model carries a ghost cause for lost results (rename during a running task; --selftest).",
    SERVER_NOTE, "TLA+ model of the service at database-command granularity model-checked with cause-classified invariants; TLC trace validation of real "
    "HTTP/database observations against definitional semantics; race replay through a scheduling database stub", "6/C16")
add("C17", "Same model with ghost ownership (accounts and documents remember the person who created them): within the bound every foreign read or effect is "
    "explained by the rename window or the stale task write - nothing else ever leaks (569 k states); --selftest: dropping the owner filter from one handler "
    "yields an unexplained foreign read. On the binary: statement labels carry the submitting principal, so TLC checks that no response to p contains a problem "
    "p did not submit, that snapshot-to-snapshot deletions / re-ownings touch only the acting principals' documents, anonymous requests get 401, login "
    "succeeds iff the password is the one last set, credentials are salted argon2 hashes; the rename window is replayed with the stub holding update_many. "
    "Principals are cookie jars and Person(p) the person behind a jar: with a second device (Server_c17_dev, 2 M states) TLC shows every leak is one of four "
    "causes - rename window, stale task write, stale session (a cookie outlives its account: F12), delete window (F14) - each replayed on the real binary. "
    "Account tracking: the account a request speaks for (followed through renames) still lists / gets every problem added to it; look-alike account names "
    "(trailing blank, case) in a third of the scenarios; the stub parks the second command of an account deletion while another person tries to take the name.",
    SERVER_NOTE, "TLA+ model with ghost ownership model-checked (all interleavings, cause-classified); TLC trace validation of multi-user histories on the real "
    "binary; deterministic race replay via the database stub", "6/C17")

def main():
    hooks = subprocess.run(["git", "-C", "/repo", "log", "--format=%H %s"], stdout=subprocess.PIPE, text=True).stdout.splitlines()
    hook_commits = [l.split()[0] for l in hooks if " verif hook" in l]
    props = [json.loads(l)["id"] for l in open(os.path.join(V, "properties.jsonl"))]
    na = [{"property_id": p, "reason": "check not built yet in this round (work in progress; see DESIGN.md section 6)"}
          for p in props if p not in CHECKS]
    m = {
        "version": 1,
        "setup_cmd": "cd /verif && ./setup.sh",
        "hooks": {
            "guard": "adf_obdd_verif",
            "enable": "rustflags --cfg adf_obdd_verif in /verif/harness/.cargo/config.toml (the harness has a path dependency on /repo/lib); "
                      "CLI/server binaries are observed from outside and built without hooks",
            "baseline_off_cmd": "cd /repo && cargo test --workspace --no-fail-fast --offline",
            "source_commits": hook_commits,
            "add_only": True,
        },
        "engines": [
            {"name": "tla-trace", "path": "/verif/check", "serves_properties": sorted(CHECKS),
             "kind_free_text": "python driver: cargo-builds the Rust harness against /repo's working tree, runs TLC model checking of the "
                               "TLA+ modules in /verif/spec, records observations of the real code, validates them with TLC trace modules"},
        ],
        "checks": [dict(CHECKS[p], level_claimed=dict(CHECKS[p]["level_claimed"], text=CHECKS[p]["level_claimed"]["text"] + ROUND2.get(p, "")))
                   for p in props if p in CHECKS],
        "not_applicable": na,
        "notes": "All checks share ./check <ID>; replay files are written under /verif/replays/<ID>/.",
    }
    json.dump(m, open(os.path.join(V, "MANIFEST.json"), "w"), indent=1)

if __name__ == "__main__":
    main()
