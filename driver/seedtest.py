#!/usr/bin/env python3
"""seedtest.py <patch.diff> <CHECK>... : apply a seeded change to /repo, run the given quick checks, revert.
Prints one line per check: <check> exit=<n> [first VIOLATION line]. /repo is always restored (git checkout -- .)."""
import subprocess, sys, os, json, time
patch = os.path.abspath(sys.argv[1]); checks = sys.argv[2:]
def sh(cmd, **kw): return subprocess.run(cmd, stdout=subprocess.PIPE, stderr=subprocess.STDOUT, text=True, **kw)
st = sh(["git", "-C", "/repo", "status", "--porcelain"]).stdout.strip()
if st:
    print("REPO NOT CLEAN:", st); sys.exit(2)
a = sh(["git", "-C", "/repo", "apply", patch])
if a.returncode != 0:
    print("APPLY FAILED", a.stdout); sys.exit(2)
res = {}
try:
    for c in checks:
        t0 = time.time()
        p = sh(["./check", c, "--tier", "quick"], cwd="/verif")
        vio = [l for l in p.stdout.splitlines() if l.startswith("VIOLATION")]
        tool = [l for l in p.stdout.splitlines() if l.startswith("TOOL-ERROR")]
        what = [l for l in p.stdout.splitlines() if l.startswith("[check]    ")]
        print("%s exit=%d %.0fs violations=%d %s" % (c, p.returncode, time.time() - t0, len(vio), (what[0][:260] if what else (tool[0][:300] if tool else ""))), flush=True)
        res[c] = {"exit": p.returncode, "violations": len(vio), "first": what[0][:400] if what else ""}
finally:
    sh(["git", "-C", "/repo", "checkout", "--", "."])
    sh(["git", "-C", "/repo", "clean", "-fdq", "--", "lib", "bin", "server"])
print("JSON " + json.dumps(res))
