#!/usr/bin/env python3
"""Rewrites the table of DESIGN.md section 11.8 from /verif/seeded/*/meta.json."""
import json, glob, os, re
rows = []
for m in sorted(glob.glob("/verif/seeded/*/meta.json")):
    d = json.load(open(m))
    rows.append("| %s%s | %s | %s | %s | %s |" % (d["breaks_property"], d["variant"], d["needs_to_manifest"].replace("|", "\\|"),
                ", ".join(d["caught_by"]) or "-", ", ".join(d["missed_by"]) or "-", d.get("note", "").replace("|", "\\|")))
table = ("<!-- SEEDTABLE BEGIN -->\n| seed | needs, in order to manifest | caught by (quick tier) | passes (by design or gap) | note |\n|---|---|---|---|---|\n"
         + "\n".join(rows) + "\n<!-- SEEDTABLE END -->")
p = "/verif/DESIGN.md"; s = open(p).read()
if "<!-- SEEDTABLE BEGIN -->" in s:
    s = re.sub(r"<!-- SEEDTABLE BEGIN -->.*?<!-- SEEDTABLE END -->", lambda _: table, s, flags=re.S)
else:
    s = s.replace("See the table at the end of this section (filled from /verif/seeded/*/meta.json as the independent sub-agents deliver).",
                  "Every seed below was produced by a fresh sub-agent that saw only the property text and a scratch worktree, was confirmed by me in a separate scratch worktree "
                  "(driver/seedverify.py), and was then run against the quick checks with driver/seedtest.py (patch applied to /repo, reverted straight afterwards). "
                  "\"passes\" lists checks that were also run and did not fire; the note says whether that is by design (the property of that check holds under the change) "
                  "or was a gap that has since been closed.\n\n" + table)
open(p, "w").write(s)
print(len(rows), "rows")
