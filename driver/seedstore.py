#!/usr/bin/env python3
"""seedstore.py <PROP> <variant> <needs text> <caught_by comma list or -> <missed_by comma list or -> [note]
copies /tmp/seed_<PROP>/<variant> into /verif/seeded/<PROP><variant>/ (patch.diff, demonstration, notes) and writes meta.json"""
import sys, os, shutil, json, glob
prop, var, needs, caught, missed = sys.argv[1:6]
note = sys.argv[6] if len(sys.argv) > 6 else ""
src = "/tmp/seed_%s/%s" % (prop, var); dst = "/verif/seeded/%s%s" % (prop, var)
os.makedirs(dst, exist_ok=True)
for f in glob.glob(src + "/*"):
    if os.path.isfile(f) and os.path.getsize(f) < 200000 and not f.endswith(".log"):
        shutil.copy(f, dst)
title = ""
try:
    for l in open(os.path.join(src, "notes.md")):
        if l.strip():
            title = l.strip("# \n"); break
except OSError:
    pass
meta = {"breaks_property": prop, "variant": var, "summary": title, "needs_to_manifest": needs,
        "origin": "independent sub-agent given only the property text and a scratch worktree of /repo",
        "confirmed_by_me": "driver/seedverify.py in scratch worktree /tmp/wt_verify at /repo HEAD: demonstration passes on HEAD, patch applies and compiles, "
                           "existing suite (cargo test --offline; --workspace when server/ is touched) passes with the patch, demonstration fails with the patch",
        "checks_run": "driver/seedtest.py: git -C /repo apply patch.diff; ./check <ID> --tier quick; git -C /repo checkout -- .",
        "caught_by": [] if caught == "-" else caught.split(","), "missed_by": [] if missed == "-" else missed.split(","), "note": note}
json.dump(meta, open(os.path.join(dst, "meta.json"), "w"), indent=1)
print("stored", dst)
